"""Source of MANIFEST.json (bin/mkmanifest)."""

HOOK_COMMITS = ["46e32d5"]

ENGINES = [
    {"name": "tlc+runner", "path": "/verif/bin/check",
     "serves_properties": [],
     "kind_free_text": "TLA+ specifications under /verif/spec model-checked with TLC; every behaviour TLC exports is "
                       "concretised and replayed on the real library by /verif/harness (svx-runner), and event traces "
                       "recorded by the feature-gated hooks are validated by TLC against the trace specifications"},
]

NOTES = ("Technique: model-based verification with explicit TLA+ specifications (see DESIGN.md). "
         "All checks: exit 0 held / 1 VIOLATION with replay file / 2 tool error. VERIF_SEED seeds sampling; "
         "VERIF_TIER or --tier selects bounds. Known findings: /verif/known_findings.json.")

NOT_APPLICABLE = {}

CHECKS = {
    "C17": dict(
        category="model_checking",
        text="TLC checks on spec/Interp.tla (design) that the depth counter equals the number of open elements in every "
             "state, that the result class equals the reference meaning (error exactly when a limit is exceeded, nothing "
             "truncated) and that every run terminates, for every document of the depth/flat/loop/var families within "
             "the bounds; every such behaviour is replayed on the real code and every recorded trace is validated "
             "against TraceStruct.tla (depth/scope at element exit = at entry on all paths). Default-limit instances "
             "(thousands of siblings, nesting 99-101, 999-1001 iterations, 1023-1025 characters) use Sem.Ideal evaluated "
             "by TLC as oracle.",
        note="Bounded: documents up to MaxNodes (4-5) nodes with limits 2-4, plus scaled instances; trusted: TLC, the "
             "runner, expat projection. Exact depth boundary only for plain nesting (not reuse chains / text re-dispatch).",
        technique="TLC model checking of Interp.tla + replay of exported behaviours + TLC trace validation (TraceStruct.tla)",
        design_ref="DESIGN.md 3.2, 4, 7 (C17)"),
}
