"""Source of MANIFEST.json (bin/mkmanifest)."""

HOOK_COMMITS = ["46e32d5"]  # fix: commits 05f402b cd70d96 dbc4d43 6d3b638 are unguarded repairs, see known_findings.json

ENGINES = [
    {"name": "tlc+runner", "path": "/verif/bin/check",
     "serves_properties": [],
     "kind_free_text": "TLA+ specifications under /verif/spec model-checked with TLC; every behaviour TLC exports is "
                       "concretised and replayed on the real library by /verif/harness (svx-runner), and event traces "
                       "recorded by the feature-gated hooks are validated by TLC against the trace specifications"},
]

NOTES = ("Technique: model-based verification with explicit TLA+ specifications (see DESIGN.md). "
         "All checks: exit 0 held / 1 VIOLATION with replay file / 2 tool error. VERIF_SEED seeds sampling; "
         "VERIF_TIER or --tier selects bounds. Known findings: /verif/known_findings.json.")

NOT_APPLICABLE = {}

INTERP_NOTE = ("Bounded: every document of the family within MaxNodes (3-5) nodes exhaustively, larger ones by TLC "
               "simulation; trusted: TLC, the runner, expat projection. The specification states the intended design; "
               "behaviour matching a named deviation that is listed in known_findings.json is reported as KNOWN-FINDING.")

CHECKS = {
    "C10": dict(
        category="model_checking",
        text="TLC checks on Interp.tla (family order: all reference graphs over <= 4-5 id'd shapes incl. dangling, self and "
             "cyclic references x all sibling orders x size spellings x optional group) that the outcome equals Sem.Ideal: "
             "x coordinates follow the reference DAG whatever the order, unsatisfiable references fail, retry passes never "
             "grow and the run terminates. Every behaviour is replayed on the real code (x by id, Err for unsatisfiable) "
             "and traces are validated against TraceStruct.tla.",
        note=INTERP_NOTE,
        technique="TLC model checking of Interp.tla (order family) + replay + TLC trace validation",
        design_ref="DESIGN.md 7 (C10)"),
    "C15": dict(
        category="model_checking",
        text="TLC checks ScopeBalanced in every state and probe values = lexical lookup (Sem.Ideal) for every nesting of "
             "g/var/if/loop with probes and forward references at every position; replay compares the probe values "
             "printed by the real code and the end-of-transform probe; TraceStruct.tla requires scope/element-stack "
             "height at every element exit (error paths included) to equal the height at entry.",
        note=INTERP_NOTE,
        technique="TLC model checking of Interp.tla (scope/reuse families) + replay + TLC trace validation",
        design_ref="DESIGN.md 7 (C15)"),
    "C16": dict(
        category="model_checking",
        text="TLC checks that the evaluator's output equals Sem.Ideal for every program of the loop family (count/while/"
             "until, loop variables, if, var updates, '^' positioning, nesting) and derives each program's unrolling; on "
             "the real code the rendered items equal the prediction and T(P) = T(Unroll(P)) (translation validation of "
             "every pair); TraceStruct counts iterations.",
        note=INTERP_NOTE + " Unroll(P) is produced by the specification.",
        technique="TLC model checking of Interp.tla (loop family) + replay + translation validation against the spec-derived unrolling",
        design_ref="DESIGN.md 7 (C16)"),
    "C18": dict(
        category="model_checking",
        text="TLC checks output = Sem.Ideal for templates (shape/group, specs/inline, before/after use) x instantiation "
             "sequences with different bindings (instances from the original target, reuse attributes override target "
             "attributes, specs never rendered); on the real code predicted items and T(P) = T(Inline(P)) with the "
             "inlining produced by the specification.",
        note=INTERP_NOTE,
        technique="TLC model checking of Interp.tla (reuse family) + replay + translation validation against the spec-derived inlining",
        design_ref="DESIGN.md 7 (C18)"),
    "C17": dict(
        category="model_checking",
        text="TLC checks on spec/Interp.tla (design) that the depth counter equals the number of open elements in every "
             "state, that the result class equals the reference meaning (error exactly when a limit is exceeded, nothing "
             "truncated) and that every run terminates, for every document of the depth/flat/loop/var families within "
             "the bounds; every such behaviour is replayed on the real code and every recorded trace is validated "
             "against TraceStruct.tla (depth/scope at element exit = at entry on all paths). Default-limit instances "
             "(thousands of siblings, nesting 99-101, 999-1001 iterations, 1023-1025 characters) use Sem.Ideal evaluated "
             "by TLC as oracle.",
        note="Bounded: documents up to MaxNodes (4-5) nodes with limits 2-4, plus scaled instances; trusted: TLC, the "
             "runner, expat projection. Exact depth boundary only for plain nesting (not reuse chains / text re-dispatch).",
        technique="TLC model checking of Interp.tla + replay of exported behaviours + TLC trace validation (TraceStruct.tla)",
        design_ref="DESIGN.md 3.2, 4, 7 (C17)"),
}
