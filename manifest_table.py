"""Source of MANIFEST.json (bin/mkmanifest)."""

HOOK_COMMITS = ["46e32d5", "6ebd8b8", "07a8fb2", "1b93db0"]  # unguarded repairs are separate "fix:" commits, see known_findings.json

ENGINES = [
    {"name": "tlc+runner", "path": "/verif/bin/check",
     "serves_properties": [],
     "kind_free_text": "TLA+ specifications under /verif/spec model-checked with TLC; every behaviour TLC exports is "
                       "concretised and replayed on the real library by /verif/harness (svx-runner), and event traces "
                       "recorded by the feature-gated hooks are validated by TLC against the trace specifications"},
]

NOTES = ("Technique: model-based verification with explicit TLA+ specifications (see DESIGN.md). "
         "All checks: exit 0 held / 1 VIOLATION with replay file / 2 tool error. VERIF_SEED seeds sampling; "
         "VERIF_TIER or --tier selects bounds. Known findings: /verif/known_findings.json.")

NOT_APPLICABLE = {}

INTERP_NOTE = ("Bounded: every document of the family within MaxNodes (3-5) nodes exhaustively, larger ones by TLC "
               "simulation; trusted: TLC, the runner, expat projection. The specification states the intended design; "
               "behaviour matching a named deviation that is listed in known_findings.json is reported as KNOWN-FINDING.")

GEOM_NOTE = ("Bounded: cases over a grid of quarter user units (negative / fractional included) enumerated by TLC; "
             "the reference rules in Geom.tla are transcribed from the layout reference and the property text, not from the code; "
             "trusted: TLC, runner, expat projection; tolerance = the 3-decimal output rounding.")

CHECKS = {
    "C01": dict(
        category="model_checking",
        text="TLC checks progress and termination of the designs: Scan.tla (every scanner step consumes a token or ends; all "
             "token-class sequences up to 4-5), Interp.tla (Finishes under weak fairness) and the outcome sets of Totality.tla "
             "(construct x depth class; XML token sequences x non-UTF-8 position; expression token sequences x context; every "
             "built-in function x extreme numbers). Every such input plus a seeded byte-mutation "
             "corpus is run in worker processes with watchdog and memory limit: outcome must be ok or err, never panic / abort / "
             "hang; traces are validated against TraceStruct.tla; a sample goes through the svgdx command and svgdx-server.",
        note="Structure is exhausted within bounds, raw bytes are sampled; 'hang' is decided by a watchdog (>= 8 s for small inputs, "
             "120 s for 20000-fold constructs); stack exhaustion is observed at concrete depths up to 10^5, not proved impossible. "
             "Debug builds of the binaries are used.",
        technique="TLC model checking (Scan.tla, Interp.tla, Totality.tla) + replay in sandboxed workers + TLC trace validation",
        design_ref="DESIGN.md 7 (C01)"),
    "C02": dict(
        category="model_checking",
        text="TLC checks on Text.tla that the design's serialisation of every value source x every string over the "
             "XML-significant alphabet (length <= 2-3) is well-formed, decodes to the author's value and is idempotent (negative "
             "controls RawAttr, DoubleEscape), and enumerates document shapes (prolog x children x namespaced); each case is "
             "replayed under several configurations and the output judged by expat (well-formed, no duplicate attributes, single "
             "svg root with namespace and version).",
        note="Sigma abstracts Unicode (one representative per XML-relevant class); expat is trusted.",
        technique="TLC enumeration + invariants on Text.tla + replay judged by an independent XML parser",
        design_ref="DESIGN.md 7 (C02)"),
    "C03": dict(
        category="model_checking",
        text="Text.tla (payload fidelity and idempotence for every string at every lexical position) drives documents rooted at "
             "a namespaced <svg> with payloads in attribute values, character data, CDATA and comments, character references, "
             "namespaced attributes, PIs, doctype, svgdx-looking content, and embedded namespaced subtrees; oracle: expat infoset "
             "of input = infoset of output under several configurations; plus examples/*.svg.",
        note="Attribute order is not part of the infoset.",
        technique="TLC enumeration on Text.tla + replay with infoset comparison by an independent XML parser",
        design_ref="DESIGN.md 7 (C03)"),
    "C04": dict(
        category="model_checking",
        text="The SVG 1.1 micro-syntaxes as generative grammars in TLA+: Scan.tla GenSpec derives every path-data token sequence "
             "up to 9-11 tokens (the same machine C01 checks for progress), SvgSyntax.tla numbers / lengths / points / transform "
             "lists / references / element vocabulary; each derivation is spelled out (separators omitted where allowed) in an "
             "svgdx-mode document: transform must succeed and the element tree must be preserved (numbers up to rounding).",
        note="Plain SVG excludes svgdx syntax by definition; curve / arc bounding boxes are not asserted.",
        technique="TLC-enumerated grammar derivations (Scan.tla, SvgSyntax.tla) + replay with tree preservation oracle",
        design_ref="DESIGN.md 7 (C04)"),
    "C05": dict(
        category="model_checking",
        text="Text.tla Idempotent (negative control DoubleEscape) states the lemma; every successfully transformed svg-rooted "
             "document of the generated corpus (Text.tla sources x strings, root shapes and attributes, Interp.tla programs, examples) is fed back under two "
             "further configurations and must come back byte for byte.",
        note="Corpus-based: documents generated by the TLA+ families of the other checks.",
        technique="TLC invariant on Text.tla + two-step histories replayed on the implementation (bytes compared)",
        design_ref="DESIGN.md 7 (C05)"),
    "C06": dict(
        category="model_checking",
        text="Styles.tla PermIndependent (emission order independent of hash iteration order; negative control HashOrderLeaks) "
             "and Frontend.tla Functional; for every key (class sets with several pattern classes, random()/randint() under "
             "seeds, multi-error documents, examples) a history of observations (output or error text; the command's failure "
             "report) in fresh processes, shuffled in-process orders, threads and repetitions is recorded and validated by TLC "
             "against TraceFrontend.tla (equal key => equal bytes).",
        note="Hash seeds cannot be enumerated: 4-6 fresh processes x 7 transforms per key.",
        technique="TLC model checking (Styles.tla, Frontend.tla) + TLC validation of recorded histories",
        design_ref="DESIGN.md 7 (C06)"),
    "C07": dict(
        category="model_checking",
        text="Frontend.tla: all interleavings of up to 3 requests over library / server / command (temp file then copy): Agree, "
             "ErrorsReported, SameFileRefused, FilesSane, Functional, NoDamage, Served; negative controls SharedState, "
             "WriteInPlace. Real histories (stream and string functions in isolation, in shuffled sequences and concurrently in one "
             "process, svgdx runs in every in/out mode with "
             "pre-existing output / failing input / output = input, concurrent HTTP requests to one svgdx-server) are validated "
             "by TLC against TraceFrontend.tla with T measured by fresh library processes.",
        note="Crash points inside the file copy are model-only. Server empty-output -> 400 is an allowed named deviation.",
        technique="TLC model checking of Frontend.tla + TLC validation of recorded front-end histories",
        design_ref="DESIGN.md 7 (C07)"),
    "C14": dict(
        category="model_checking",
        text="Expr.tla: TLC checks Parse(Unparse(tree)) = tree for every tree in bounds (precedence, left associativity, unary "
             "minus, non-chaining comparison, word operators, calls) with minimal and redundant parentheses, and that malformed "
             "strings have no parse; the harness evaluates each exported TREE in f32 and compares with the real evaluator "
             "(direct entry and document contexts); malformed strings must fail; Interp.tla family rng checks EvalOnce and the "
             "replay compares PRNG draw counts; a metamorphic pair compares random sequences.",
        note="IEEE arithmetic delegated to the host f32 conversion and libm (2e-5 relative tolerance for transcendental functions).",
        technique="TLC model checking of Expr.tla / Interp.tla + differential replay against a tree evaluator",
        design_ref="DESIGN.md 7 (C14)"),
    "C19": dict(
        category="model_checking",
        text="Text.tla family lines (strings with literal newlines, \\n and its escaped form x 4 carriers; Lines(s)) and Geom.tla "
             "family textpos (TextAnchor / AlignClasses over shapes x 9 locations x inside/outside x vertical x offsets, with "
             "identities); replay compares expat-decoded character data of text/tspan with the predicted lines, the anchor and "
             "classes with the prediction, and checks the shape is unchanged apart from text-specific attributes.",
        note="Leniencies stated in evidence (zero-width space for empty lines, trailing empty line, outer whitespace of content carriers).",
        technique="TLC enumeration + invariants (Text.tla, Geom.tla) + replay judged by an independent XML parser",
        design_ref="DESIGN.md 7 (C19)"),
    "C20": dict(
        category="model_checking",
        text="Styles.tla: for every set of reserved classes (reduced vocabulary) x element kinds x on/off x root/fragment x local "
             "styles the design Rules / Defs with Minimal, Complete, Closed, NothingWhenOff; replay compares rule and definition "
             "sets with the prediction and evaluates the same predicates generically over the full vocabulary of the styles "
             "reference (singles and cross-family pairs x 6 themes); author style/defs must survive.",
        note="Vocabulary from the styles reference and the SVG colour keyword list, not from the code.",
        technique="TLC enumeration + invariants on Styles.tla + replay with generic closure / minimality predicates",
        design_ref="DESIGN.md 7 (C20)"),
    "C08": dict(
        category="model_checking",
        text="TLC enumerates item lists (all element kinds that do / do not contribute) x border x scale x supplied root "
             "attributes, computes Extent / RootBox in Geom.tla and checks enclosure, integrality, < 1 unit slack and "
             "idempotence on every case; each case is replayed and the root viewBox / width / height compared; a second "
             "oracle recomputes the extent from the output's own geometry for the repository examples.",
        note=GEOM_NOTE, technique="TLC enumeration + invariants on Geom.tla (extent family) + replay against the implementation",
        design_ref="DESIGN.md 7 (C08)"),
    "C09": dict(
        category="model_checking",
        text="TLC enumerates reference kinds x subject kinds x |h |H |v |V with gaps, @loc with anchors and dx/dy, edge "
             "offsets (abs, negative, percent), scalar references, relative sizes and chains, computes the placed box "
             "with Geom.tla and checks the identities of the layout reference (@t:0% = @tl, anchor round trip, centring, "
             "gap) on every case; each case is replayed and the subject's output geometry compared.",
        note=GEOM_NOTE, technique="TLC enumeration + invariants on Geom.tla (rel family) + replay against the implementation",
        design_ref="DESIGN.md 7 (C09)"),
    "C11": dict(
        category="model_checking",
        text="TLC enumerates shapes x boxes x 6x6 per-axis constraint pairs x dx/dy and checks Solve(Project(box)) = box; "
             "every case is written in several spellings (longhand, shorthands, one/two values, separators) which must all "
             "yield the same attribute map = the native geometry of the box with no shorthand left.",
        note=GEOM_NOTE, technique="TLC enumeration + invariants on Geom.tla (solve family) + replay + metamorphic comparison of spellings",
        design_ref="DESIGN.md 7 (C11)"),
    "C12": dict(
        category="model_checking",
        text="TLC enumerates reference lists x container kinds x 1-4 value margins (abs, percent, negative), computes "
             "grown union / shrunk intersection in Geom.tla and checks enclosure identities; replay: rect containers "
             "equal the box, circle/ellipse containers satisfy the enclosure predicate on the output numbers, "
             "surround/inside/margin absent.",
        note=GEOM_NOTE, technique="TLC enumeration + invariants on Geom.tla (contain family) + replay against the implementation",
        design_ref="DESIGN.md 7 (C12)"),
    "C13": dict(
        category="model_checking",
        text="TLC enumerates two-box arrangements (9 sectors, overlapping, nested, touching, identical) x endpoint forms x "
             "connector kinds and computes the set of minimal-distance candidate pairs (exact integer squares); replay: "
             "output endpoints are one of the minimal pairs, h/v lines run through the middle of the overlap, corner "
             "polylines are rectilinear and perpendicular at both ends, connector attributes absent.",
        note=GEOM_NOTE, technique="TLC enumeration + invariants on Geom.tla (conn family) + replay against the implementation",
        design_ref="DESIGN.md 7 (C13)"),
    "C10": dict(
        category="model_checking",
        text="TLC checks on Interp.tla (family order: all reference graphs over <= 4-5 id'd shapes incl. dangling, self and "
             "cyclic references x all sibling orders x size spellings x optional group) that the outcome equals Sem.Ideal: "
             "x coordinates follow the reference DAG whatever the order, unsatisfiable references fail, retry passes never "
             "grow and the run terminates. Every behaviour is replayed on the real code (x by id, Err for unsatisfiable) "
             "and traces are validated against TraceStruct.tla. Geom.tla UnsatCases: every kind of unsatisfiable reference "
             "x '#id' / '^' x twelve forms of use must make the transform fail.",
        note=INTERP_NOTE,
        technique="TLC model checking of Interp.tla (order family) + replay + TLC trace validation",
        design_ref="DESIGN.md 7 (C10)"),
    "C15": dict(
        category="model_checking",
        text="TLC checks ScopeBalanced in every state and probe values = lexical lookup (Sem.Ideal) for every nesting of "
             "g/var/if/loop with probes and forward references at every position; replay compares the probe values "
             "printed by the real code and the end-of-transform probe; TraceStruct.tla requires scope/element-stack "
             "height at every element exit (error paths included) to equal the height at entry.",
        note=INTERP_NOTE,
        technique="TLC model checking of Interp.tla (scope/reuse families) + replay + TLC trace validation",
        design_ref="DESIGN.md 7 (C15)"),
    "C16": dict(
        category="model_checking",
        text="TLC checks that the evaluator's output equals Sem.Ideal for every program of the loop family (count/while/"
             "until, loop variables, if, var updates, '^' positioning, nesting) and derives each program's unrolling; on "
             "the real code the rendered items equal the prediction and T(P) = T(Unroll(P)) (translation validation of "
             "every pair); TraceStruct counts iterations.",
        note=INTERP_NOTE + " Unroll(P) is produced by the specification.",
        technique="TLC model checking of Interp.tla (loop family) + replay + translation validation against the spec-derived unrolling",
        design_ref="DESIGN.md 7 (C16)"),
    "C18": dict(
        category="model_checking",
        text="TLC checks output = Sem.Ideal for templates (shape/group, specs/inline, before/after use) x instantiation "
             "sequences with different bindings (instances from the original target, reuse attributes override target "
             "attributes, specs never rendered); on the real code predicted items and T(P) = T(Inline(P)) with the "
             "inlining produced by the specification; Geom.tla ReusePosCases: template kind x place x anchor x way of "
             "writing the position, instance geometry compared.",
        note=INTERP_NOTE,
        technique="TLC model checking of Interp.tla (reuse family) + replay + translation validation against the spec-derived inlining",
        design_ref="DESIGN.md 7 (C18)"),
    "C17": dict(
        category="model_checking",
        text="TLC checks on spec/Interp.tla (design) that the depth counter equals the number of open elements in every "
             "state, that the result class equals the reference meaning (error exactly when a limit is exceeded, nothing "
             "truncated) and that every run terminates, for every document of the depth/flat/loop/var families within "
             "the bounds; every such behaviour is replayed on the real code and every recorded trace is validated "
             "against TraceStruct.tla (depth/scope at element exit = at entry on all paths; a loop reports the configured "
             "limit, runs at most one pass beyond it and the transform then fails with a limit error - and only then). Default-limit instances "
             "(thousands of siblings, nesting 99-101, 999-1001 iterations, 1023-1025 characters) use Sem.Ideal evaluated "
             "by TLC as oracle.",
        note="Bounded: documents up to MaxNodes (4-5) nodes with limits 2-4, plus scaled instances; trusted: TLC, the "
             "runner, expat projection. Exact depth boundary only for plain nesting (not reuse chains / text re-dispatch).",
        technique="TLC model checking of Interp.tla + replay of exported behaviours + TLC trace validation (TraceStruct.tla)",
        design_ref="DESIGN.md 3.2, 4, 7 (C17)"),
}
