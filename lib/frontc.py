"""Drivers for real front-end histories (library in threads / processes, the
svgdx command, svgdx-server over loopback HTTP) and their validation against
spec/TraceFrontend.tla."""
import hashlib
import http.client
import json
import re
import os
import shutil
import socket
import subprocess
import tempfile
import time

import vlib


def h(b):
    if b is None:
        return "-"
    if isinstance(b, str):
        b = b.encode("utf-8")
    return hashlib.sha1(b).hexdigest()[:16]


def key_of(xml, cfg):
    return h(xml + "\0" + json.dumps(cfg, sort_keys=True))


def table_event(key, resp, with_err=False, mask_local_id=False):
    """with_err: the error text is part of the observation (C06: the error is a function
    of input and configuration too); across front-ends only the verdict is comparable"""
    st = "ok" if resp["status"] == "ok" else "fail"
    body = resp.get("out") if st == "ok" else None
    if mask_local_id and body and "svgdx-" in body:
        # the randomised id of local styles is the one permitted variation - where local styles
        # are requested (the caller says so)
        body = re.sub(r"svgdx-[0-9a-f]{8}", "svgdx-XXXXXXXX", body)
    hh = h(body) if st == "ok" else (h(resp.get("err") or "") if with_err else "-")
    return {"e": "table", "key": key, "status": st, "hash": hh, "empty": bool(st == "ok" and body == "")}


def validate_history(events, tag):
    """Validate a history against TraceFrontend.tla; returns list of rejections
    (index, offending event) - the trace is re-checked after each rejection
    with the offending event removed."""
    rejected = []
    evs = list(events)
    for _ in range(6):
        wd = vlib.workdir("fe-" + tag)
        path = os.path.join(wd, "hist.ndjson")
        with open(path, "w") as f:
            for e in evs:
                f.write(json.dumps(e) + "\n")
        cfg = "SPECIFICATION TraceSpec\nCONSTRAINT Progress\nPOSTCONDITION Accepted\nCHECK_DEADLOCK FALSE\n"
        cfgp = os.path.join(wd, "t.cfg")
        open(cfgp, "w").write(cfg)
        cmd = ["timeout", "600", "java", "-XX:+UseParallelGC", "-Xmx3g", "-Xss512m", "-Dtlc2.tool.queue.IStateQueue=StateDeque",
               "-cp", "/opt/veriftools/tla/tla2tools.jar:/opt/veriftools/tla/CommunityModules-deps.jar", "tlc2.TLC", "-workers", "1",
               "-metadir", os.path.join(wd, "meta"), "-cleanup", "-noGenerateSpecTE", "-config", cfgp, "TraceFrontend.tla"]
        p = subprocess.run(cmd, cwd=vlib.SPEC, env=dict(os.environ, TRACE=path), stdout=subprocess.PIPE, stderr=subprocess.STDOUT,
                           text=True, errors="replace")
        shutil.rmtree(wd, ignore_errors=True)
        out = p.stdout
        import re
        m = re.search(r'"TRACE-REJECTED", "matched", (\d+), "of", (\d+)', out)
        if m is None:
            if "Model checking completed. No error has been found." not in out:
                raise vlib.ToolError("history validation failed to run:\n" + out[-2500:])
            return rejected, len(evs)
        i = int(m.group(1))
        rejected.append(evs[i])
        evs = evs[:i] + evs[i + 1:]
    return rejected, len(evs)


# --------------------------------------------------------------------------
# the svgdx command
# --------------------------------------------------------------------------
CLI_FLAGS = {"debug": "--debug", "add_metadata": "--add-metadata", "use_local_styles": "--use-local-styles"}


def cli_args(cfg):
    a = []
    for k, v in cfg.items():
        if k in CLI_FLAGS:
            if v:
                a.append(CLI_FLAGS[k])
        elif k == "add_auto_styles":
            if not v:
                a.append("--no-auto-styles")
        else:
            a += ["--" + k.replace("_", "-"), str(v)]
    return a


def run_cli(binary, mode, xml, cfg, workdir, out_initial=None, samefile=False, timeout=60):
    """mode: file-file | stdin-stdout | file-stdout | stdin-file.  Returns an op event (without key)."""
    inp = os.path.join(workdir, "in.xml")
    outp = inp if samefile else os.path.join(workdir, "out.svg")
    with open(inp, "wb") as f:
        f.write(xml.encode("utf-8"))
    # output = input, named by another route (samefile = "dotdot" | "symlink" | "relative")
    out_arg, cwd = None, None
    if samefile == "dotdot":
        os.makedirs(os.path.join(workdir, "sub"), exist_ok=True)
        out_arg = os.path.join(workdir, "sub", "..", "in.xml")
    elif samefile == "symlink":
        out_arg = os.path.join(workdir, "link.svg")
        if os.path.lexists(out_arg):
            os.unlink(out_arg)
        os.symlink("in.xml", out_arg)
    elif samefile == "relative":
        out_arg, cwd = "in.xml", workdir
    samefile = bool(samefile)
    if not samefile:
        if out_initial is None:
            if os.path.exists(outp):
                os.unlink(outp)
        else:
            with open(outp, "wb") as f:
                f.write(out_initial)
    before = h(open(outp, "rb").read()) if os.path.exists(outp) else "-"
    args = [binary]
    stdin = None
    if mode.startswith("file"):
        args.append(inp)
    else:
        stdin = xml.encode("utf-8")
    if mode.endswith("-file"):
        args += ["-o", out_arg or outp]
    args += cli_args(cfg)
    p = subprocess.run(args, input=stdin, stdout=subprocess.PIPE, stderr=subprocess.PIPE, timeout=timeout, cwd=cwd)
    after = h(open(outp, "rb").read()) if os.path.exists(outp) else "-"
    ok = p.returncode == 0
    fe = {"file-file": "cli-file", "stdin-file": "cli-stdin-file", "file-stdout": "cli-stdout", "stdin-stdout": "cli-stdin-stdout"}[mode]
    ev = {"e": "op", "fe": fe, "status": "ok" if ok else "fail", "hash": h(p.stdout) if (ok and mode.endswith("stdout")) else "-",
          "before": before, "after": after, "samefile": samefile, "rc": p.returncode,
          "stderr_empty": len(p.stderr) == 0}
    return ev, p


# --------------------------------------------------------------------------
# the server
# --------------------------------------------------------------------------
class Server:
    def __init__(self, binary):
        s = socket.socket()
        s.bind(("127.0.0.1", 0))
        self.port = s.getsockname()[1]
        s.close()
        self.p = subprocess.Popen([binary, "--port", str(self.port)], stdout=subprocess.PIPE, stderr=subprocess.PIPE)
        for _ in range(100):
            try:
                c = socket.create_connection(("127.0.0.1", self.port), timeout=0.2)
                c.close()
                break
            except OSError:
                time.sleep(0.1)
        else:
            self.stop()
            raise vlib.ToolError("svgdx-server did not start")

    def post(self, xml, add_metadata=False, timeout=60):
        c = http.client.HTTPConnection("127.0.0.1", self.port, timeout=timeout)
        path = "/api/transform" + ("?add_metadata=true" if add_metadata else "")
        c.request("POST", path, body=xml.encode("utf-8") if isinstance(xml, str) else xml,
                  headers={"Content-Type": "text/plain"})
        r = c.getresponse()
        body = r.read()
        c.close()
        return r.status, body, r.getheader("Content-Type")

    def alive(self):
        return self.p.poll() is None

    def stop(self):
        try:
            self.p.kill()
            self.p.wait(timeout=5)
        except Exception:
            pass
