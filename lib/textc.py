"""Binding of spec/Text.tla to the implementation: strings over the abstract
alphabet Sigma become concrete characters placed into documents at every
value source; outputs are judged with the independent parser (expat)."""
import random

import vlib

CH = {"a": "a", " ": " ", "&": "&", "<": "<", ">": ">", "Q": '"', "'": "'", "-": "-", "]": "]", "e": "é",
      "N": "\n", "B": "\\", "n": "n",
      # the four characters & l t ; as the author's text (not a reference to "<")
      "E": "&lt;"}


def conc(s):
    return "".join(CH[c] for c in s)


def esc_attr(v):
    return (v.replace("&", "&amp;").replace("<", "&lt;").replace('"', "&quot;").replace("\n", "&#10;")
            .replace("\t", "&#9;"))


def esc_text(v):
    return v.replace("&", "&amp;").replace("<", "&lt;").replace(">", "&gt;")


CONFIGS = [
    {},
    {"debug": True},
    {"add_metadata": True},
    {"theme": "dark"},
    {"use_local_styles": True},
    {"debug": True, "add_metadata": True, "theme": "glass"},
    {"add_auto_styles": False},
    {"theme": "bold", "background": "#fff"},
    {"theme": "fine"},
    {"theme": "light", "font_family": "serif"},
    {"scale": 0.0, "border": 0},
    {"scale": -2.0, "font_size": 0.0},
]


def wf_document(case, rnd):
    """(xml, cfg) placing the case's string at its source, or None when the
    source cannot carry the string in a well-formed INPUT."""
    v = conc(case["s"])
    src = case["src"]
    cfg = {}
    a = esc_attr(v)
    t = esc_text(v)
    if src == "attr":
        body = f'<rect wh="2" data-x="{a}"/>'
    elif src == "var-in-attr":
        body = f'<var v="{a}"/><rect wh="2" data-x="$v"/>'
    elif src == "expr-string":
        if any(c in v for c in "'\\\n"):
            return None
        body = f'<rect wh="2" data-x="{{{{\'{a}\'}}}}"/>'
    elif src == "style-attr":
        body = f'<rect wh="2" style="{a}"/>'
    elif src == "cfg-svg-style":
        cfg["svg_style"] = v
        body = '<rect wh="2"/>'
    elif src == "cfg-font":
        # the setting arrives through the configuration or through a <config> element
        if rnd.random() < 0.5:
            cfg["font_family"] = v
            body = '<rect wh="2" text="t"/>'
        else:
            body = f'<config font-family="{a}"/><rect wh="2" text="t"/>'
    elif src == "cfg-font+background":
        # both settings flow into the same style sheet
        cfg["font_family"] = v
        cfg["background"] = v
        body = '<rect wh="2" text="t"/>'
    elif src == "cfg-background":
        if rnd.random() < 0.5:
            cfg["background"] = v
            body = '<rect wh="2"/>'
        else:
            body = f'<config background="{a}"/><rect wh="2"/>'
    elif src == "root-attr":
        # attributes of the root element itself (rewritten when the root is synthesised)
        return f'<svg data-x="{a}" style="{a}" class="{a}"><rect wh="2"/></svg>', cfg
    elif src == "g-attr":
        body = f'<g data-x="{a}"><rect wh="2"/></g>'
    elif src == "reuse-attr":
        body = f'<specs><rect id="t" wh="2" data-x="q"/></specs><reuse href="#t" data-x="{a}"/>'
    elif src == "class-attr":
        # class lists: repeated and blank-separated tokens included
        body = f'<g class="{a}"><rect wh="2" class="k {a} k"/></g>'
    elif src == "class-var":
        body = f'<var c="{a}"/><g class="{a} $c"><rect wh="2" class="$c {a}"/></g>'
    elif src == "debug-original":
        cfg["debug"] = True
        body = f'<rect wh="2" data-x="{a}"/>'
    elif src == "text-attr":
        body = f'<rect wh="9" text="{a}"/>'
    elif src == "content":
        if not v.strip():
            body = f'<rect wh="9" text="{a}"/>'
        else:
            body = f'<rect wh="9">{t}</rect>'
    elif src == "text-element":
        body = f'<text xy="1 1">{t}</text>' if v.strip() else f'<text xy="1 1" text="{a}"/>'
    elif src == "var-in-text":
        body = f'<var v="{a}"/><rect wh="9" text="$v"/>'
    elif src == "cdata-content":
        if "]]>" in v or not v.strip():
            return None
        body = f'<rect wh="9"><![CDATA[{v}]]></rect>'
    elif src == "comment-attr":
        body = f'<rect wh="2" _="{a}"/>'
    elif src == "comment-var":
        body = f'<var v="{a}"/><rect wh="2" _="l $v r"/>'
    elif src == "comment-var-chain":
        body = f'<var p="$q"/><var q="$r"/><var r="{a}"/><rect wh="2" _="l $p r"/>'
    elif src == "raw-comment-attr":
        body = f'<rect wh="2" __="{a}"/>'
    elif src == "input-comment":
        if "--" in v or v.endswith("-"):
            return None
        body = f'<!--{v}--><rect wh="2"/>'
    else:
        raise ValueError(src)
    return f"<svg>{body}</svg>", cfg


def check_wellformed(out, expect_svg_root=True):
    """None if `out` is a well-formed document with a proper svg root, else a reason."""
    try:
        root = vlib.parse_xml(out)
    except vlib.XmlError as e:
        return f"not well-formed: {e}"
    els = [n for n in root.children if n.kind == "el"]
    if expect_svg_root:
        if len(els) != 1 or els[0].name != "svg":
            return f"root elements {[e.name for e in els]}"
        a = els[0].attrs
        if a.get("xmlns") != "http://www.w3.org/2000/svg":
            return "root <svg> does not declare the SVG namespace"
        if "version" not in a:
            return "root <svg> has no version"
    return None


def style_text(out):
    """character data of the generated <style> element(s) of an output document"""
    root = vlib.parse_xml(out)
    return "".join(c.text for el in vlib.elements(root) if el.name == "style"
                   for c in el.children if c.kind in ("text", "cdata"))


def infoset(node, strip_ws=False):
    """Comparable infoset of a parsed tree (attribute order ignored; adjacent
    character data merged)."""
    out = []
    buf = []

    def flush():
        if buf:
            t = "".join(buf)
            if not (strip_ws and not t.strip()):
                out.append(("chars", t))
            buf.clear()
    for c in node.children:
        if c.kind in ("text", "cdata"):
            buf.append(c.text)
            continue
        flush()
        if c.kind == "el":
            out.append(("el", c.name, tuple(sorted(c.attrs.items())), tuple(infoset(c, strip_ws))))
        elif c.kind == "comment":
            out.append(("comment", c.text))
        elif c.kind == "pi":
            out.append(("pi", c.name, c.text))
        elif c.kind == "doctype":
            out.append(("doctype", c.name))
    flush()
    return out
