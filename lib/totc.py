"""Concretisation of the families of spec/Totality.tla and spec/Scan.tla:
documents that repeat / nest one construct n times, XML token sequences with
non-UTF-8 bytes at chosen positions, scanner inputs from token classes, and
the seeded byte-mutation driver of C01."""
import random

import vlib


def depth_doc(k, n, quad_cap=3000):
    """bytes of a document made of construct k repeated / nested n times;
    constructs whose evaluation is inherently quadratic (chains resolved one
    element per retry pass) are capped at quad_cap"""
    r = lambda s: s.encode("utf-8")
    if k == "nest-g":
        return r("<g>" * (n - 1) + '<rect wh="1"/>' + "</g>" * (n - 1)) if n > 1 else r('<rect wh="1"/>')
    if k == "nest-svg":
        return r("<svg>" * n + '<rect wh="1"/>' + "</svg>" * n)
    if k == "nest-a":
        return r("<a>" * (n - 1) + '<rect wh="1"/>' + "</a>" * (n - 1)) if n > 1 else r('<rect wh="1"/>')
    if k == "nest-text-content":
        return r("<svg>" + "<g>" * n + "<text>deep</text>" + "</g>" * n + "</svg>")
    if k == "nest-loop":
        return r("<svg>" + '<loop count="1">' * n + '<rect wh="1"/>' + "</loop>" * n + "</svg>")
    if k == "nest-if":
        return r("<svg>" + '<if test="1">' * n + '<rect wh="1"/>' + "</if>" * n + "</svg>")
    if k == "reuse-self":
        return r('<svg><g id="a"><rect wh="1"/>' + '<reuse href="#a"/>' * min(n, 3) + "</g></svg>")
    if k == "reuse-mutual":
        return r('<svg><specs><g id="a"><reuse href="#b"/></g><g id="b"><reuse href="#a"/><reuse href="#a"/></g></specs>'
                 + '<reuse href="#a"/>' * min(n, 50) + "</svg>")
    if k == "reuse-chain":
        m = min(n, quad_cap)
        return r('<svg><specs><rect id="t0" wh="2"/>' + "".join(f'<g id="t{i + 1}"><reuse href="#t{i}"/></g>' for i in range(m))
                 + f'</specs><reuse href="#t{m}"/></svg>')
    if k == "use-chain":
        m = min(n, quad_cap)
        return r('<svg><rect id="u0" wh="2"/>' + "".join(f'<use id="u{i + 1}" href="#u{i}"/>' for i in range(m))
                 + f'<rect xy="#u{m}|h" wh="1"/></svg>')
    if k == "use-self":
        return r('<svg><use id="a" href="#b"/><use id="b" href="#a"/><rect xy="#a|h" wh="1"/>' + '<rect wh="1"/>' * min(n, 100) + "</svg>")
    if k == "parens":
        return r('<svg><rect wh="{{' + "(" * n + "1" + ")" * n + '}}"/></svg>')
    if k == "unary-minus":
        return r('<svg><rect wh="1" data-v="{{' + "-" * n + '1}}"/></svg>')
    if k == "nested-calls":
        return r('<svg><rect wh="1" data-v="{{' + "abs(" * n + "1" + ")" * n + '}}"/></svg>')
    if k == "binary-chain":
        return r('<svg><rect wh="1" data-v="{{1' + " + 1" * n + '}}"/></svg>')
    if k == "comma-list":
        return r('<svg><rect wh="1" data-v="{{' + ", ".join(["1"] * n) + '}}"/></svg>')
    if k == "string-concat":
        return r('<svg><var s="x"/>' + '<var s="$s$s"/>' * min(n, 30) + '<rect wh="1" data-v="$s"/></svg>')
    if k == "var-chain":
        m = min(n, 5000)
        return r('<svg><var v0="1"/>' + "".join(f'<var v{i + 1}="$v{i}"/>' for i in range(m)) + f'<rect wh="1" data-v="$v{m}"/></svg>')
    if k == "var-self":
        return r('<svg><var a="$b"/><var b="$a"/>' + '<rect wh="{{$a + 1}}"/>' * min(n, 20) + "</svg>")
    if k == "var-rho":
        # a chain of variables leading INTO a cycle it is not part of (defined so that nothing is
        # substituted early), read from an expression and from a condition
        t = min(n, 300)
        cyc = 1 + n % 3
        tail = "".join(f'<var t{i}="$t{i + 1}"/>' for i in range(t)) + f'<var t{t}="$y0"/>'
        loop = "".join(f'<var y{j}="$y{(j + 1) % cyc}"/>' for j in range(cyc))
        return r("<svg>" + tail + loop + '<rect xy="0" wh="{{$t0 + 1}}"/><if test="$t0"><rect wh="1"/></if></svg>')
    if k == "var-growth":
        return r('<svg><var s="xx"/><loop count="%d"><var s="$s$s"/></loop><rect wh="1"/></svg>' % min(n, 1000))
    if k == "path-length":
        return r('<svg><path d="M0 0' + " L1 1" * n + '"/></svg>')
    if k == "path-junk":
        return r('<svg><path d="M0 0' + " Z 5" * min(n, 50) + '"/><path d="' + "M" * n + '"/></svg>')
    if k == "points-length":
        return r('<svg><polyline points="' + " ".join(f"{i},{i % 7}" for i in range(n)) + '"/></svg>')
    if k == "transform-list":
        return r('<svg><g transform="' + " ".join(["translate(1 2)", "scale(2)"] * (n // 2 + 1)) + '"><rect wh="1"/></g></svg>')
    if k == "bearing-length":
        return r('<svg><path d="M0 0' + " b10 l5 0" * n + '"/></svg>')
    if k == "siblings":
        return r("<svg>" + '<rect xy="^|h 1" wh="1"/>' * n + "</svg>")
    if k == "siblings-text":
        return r("<svg>" + "".join(f'<text xy="0 {i}">t{i}</text>' for i in range(n)) + "</svg>")
    if k == "attrs-many":
        return r("<svg><rect " + " ".join(f'data-a{i}="{i}"' for i in range(n)) + ' wh="1"/></svg>')
    if k == "attr-long":
        return r('<svg><rect wh="1" data-v="' + "x" * (n * 10) + '"/></svg>')
    if k == "text-long":
        return r('<svg><rect wh="9" text="' + "word " * n + '"/><text>' + "ab\n" * n + "</text></svg>")
    if k == "comment-long":
        return r("<svg><!--" + "c " * n + '--><rect wh="1" _="' + "note " * min(n, 20000) + '"/></svg>')
    if k == "retry-chain":
        m = min(n, quad_cap)
        return r("<svg>" + "".join(f'<rect id="c{i}" xy="#c{i + 1}|h 1" wh="1"/>' for i in range(m)) + f'<rect id="c{m}" wh="1"/></svg>')
    if k == "retry-nested":
        # every level has one sibling that succeeds and one that cannot: the retry of the
        # outer lists must not multiply the work at every level
        m = min(n, 90)
        return r("<svg>" + '<g><rect wh="1"/>' * m + '<rect xy="#nowhere|h" wh="1"/>' + "</g>" * m + "</svg>")
    if k == "retry-nested-ws":
        # the same with indentation: the text between elements is a tag of the retry loop too
        m = min(n, 90)
        return r("<svg>" + "\n <g>\n  " * m + '<rect xy="#nowhere|h" wh="1"/>' + "\n </g>\n" * m + "</svg>")
    if k == "retry-nested-tail":
        # a failing container with a sibling AFTER it, at every level: the sibling's success
        # must not make the failed container before it worth another attempt
        m = min(n, 90)
        return r("<svg>" + "<g>" * m + '<rect xy="#nowhere|h" wh="1"/>' + '</g><rect wh="1"/>' * m + "</svg>")
    if k == "clip-cycle":
        # clip paths that clip one another (a cycle of length 1 + n mod 4); the clipped shape's box is asked for
        m = 1 + n % 4
        cps = "".join(f'<clipPath id="cp{i}" clip-path="url(#cp{(i + 1) % m})"><rect wh="3"/></clipPath>' for i in range(m))
        return r(f'<svg><defs>{cps}</defs><rect id="a" wh="5" clip-path="url(#cp0)"/><rect xy="#a|h" wh="1"/></svg>')
    if k == "clip-chain":
        m = min(n, 2000)
        cps = '<clipPath id="cp0"><rect wh="3"/></clipPath>' + "".join(
            f'<clipPath id="cp{i + 1}" clip-path="url(#cp{i})"><rect wh="{3 + i % 3}"/></clipPath>' for i in range(m))
        return r(f'<svg><defs>{cps}</defs><rect id="a" wh="5" clip-path="url(#cp{m})"/><rect xy="#a|h" wh="1"/></svg>')
    if k == "var-chain-fwd":
        # each variable is defined by the NEXT one (nothing is substituted when it is assigned):
        # reading the first evaluates the whole chain recursively
        m = min(n, 5000)
        return r("<svg>" + "".join(f'<var w{i}="$w{i + 1}"/>' for i in range(m)) + f'<var w{m}="1"/>'
                 + '<rect wh="{{$w0 + 1}}"/><rect wh="1" data-v="$w0"/><if test="$w0"><rect wh="1"/></if></svg>')
    if k == "var-tree":
        # every variable is defined through the next one TWICE (nothing is substituted when it is
        # assigned): evaluating the first one naively doubles the work at every level
        m = min(n, 60)
        return r("<svg>" + "".join(f'<var t{i}="$t{i + 1} + $t{i + 1}"/>' for i in range(m)) + f'<var t{m}="1"/>'
                 + '<rect wh="{{$t0}}"/><if test="$t0"><rect wh="1"/></if></svg>')
    if k == "retry-siblings":
        # many failing containers side by side: none of them may keep the others retrying
        m = min(n, 400)
        return r("<svg>" + '<g><rect wh="1"/><rect xy="#nowhere|h" wh="1"/></g>' * m + "</svg>")
    if k == "ref-cycle":
        m = max(2, min(n, 2000))
        return r("<svg>" + "".join(f'<rect id="c{i}" xy="#c{(i + 1) % m}|h 1" wh="1"/>' for i in range(m)) + "</svg>")
    if k == "surround-chain":
        m = min(n, quad_cap // 2)
        return r('<svg><rect id="s0" wh="2"/>' + "".join(f'<rect id="s{i + 1}" surround="#s{i}" margin="1"/>' for i in range(m)) + "</svg>")
    if k == "loop-count":
        return r('<svg><loop count="%d"><rect xy="^|h" wh="1"/></loop></svg>' % n)
    if k == "loop-nested-count":
        m = max(1, int(round(n ** 0.5)))
        return r('<svg><loop count="%d"><loop count="%d"><rect wh="1"/></loop></loop></svg>' % (m, m))
    if k == "for-list":
        return r('<svg><for var="v" data="' + ",".join(str(i) for i in range(n)) + '"><rect wh="1" data-v="$v"/></for></svg>')
    if k == "xml-depth":
        return r("<x>" * n + "</x>" * n)
    if k == "entity-like":
        return r('<svg><rect wh="1" text="' + "&amp;" * n + '"/><text>' + "&lt;&#65;" * n + "</text></svg>")
    if k == "defaults-many":
        m = min(n, 2000)
        return r("<svg><defaults>" + "".join(f'<rect class="k{i}" data-d{i}="1"/>' for i in range(m)) + '</defaults><rect wh="1"/><rect wh="2"/></svg>')
    if k == "class-many":
        return r('<svg><rect wh="1" class="' + " ".join(f"d-grid-{1 + i % 100} c{i}" for i in range(n)) + '"/></svg>')
    raise ValueError(k)


# --------------------------------------------------------------------------
# XML token sequences
# --------------------------------------------------------------------------
BAD = b"\xff\xfe"


def lex_doc(toks, pos, root):
    """bytes for a sequence of XML token classes; `pos` names the lexical position
    that receives a non-UTF-8 byte sequence (if that position occurs)."""
    used = [False]

    def inj(where, data):
        if pos == where and not used[0]:
            used[0] = True
            return data + BAD
        return data
    out = []
    stack = []
    for i, t in enumerate(toks):
        if t == "open":
            out.append(b"<" + inj("element-name", b"g") + b" " + inj("attr-name", b"data-a") + b'="' + inj("attr-value", b"v") + b'">')
            stack.append(b"g")
        elif t == "close":
            out.append(b"</g>")
        elif t == "close-mismatch":
            out.append(b"</rect>")
        elif t == "empty":
            out.append(b"<" + inj("element-name", b"rect") + b' wh="2" ' + inj("attr-name", b"text") + b'="' + inj("attr-value", b"hi") + b'"/>')
        elif t == "text":
            out.append(inj("text", b"some text"))
        elif t == "comment":
            out.append(b"<!--" + inj("comment", b" note ") + b"-->")
        elif t == "cdata":
            out.append(b"<![CDATA[" + inj("cdata", b"c < d") + b"]]>")
        elif t == "pi":
            out.append(b"<?" + inj("pi", b"target data") + b"?>")
        elif t == "doctype":
            out.append(b"<!DOCTYPE " + inj("doctype", b"svg") + b">")
        elif t == "xmldecl":
            out.append(b'<?xml version="1.0"?>')
        elif t == "dup-attr":
            out.append(b'<rect x="1" x="2" wh="1"/>')
        elif t == "bad-entity":
            out.append(b'<rect wh="1" text="&nosuch; &#xZZ;"/><text>&undefined;</text>')
        elif t == "unterminated-tag":
            out.append(b'<rect wh="1"')
        elif t == "unterminated-comment":
            out.append(b"<!-- never closed")
        elif t == "unquoted-attr":
            out.append(b"<rect wh=1/>")
        elif t == "lone-lt":
            out.append(b"a < b & c")
    body = b"".join(out)
    if root == "svg":
        return b"<svg>" + body + b"</svg>"
    if root == "svg-ns":
        return b'<svg xmlns="http://www.w3.org/2000/svg">' + body + b"</svg>"
    return body


ETOK = {"num": ["1", "2.5", "1e3", ".5"], "var": ["$a", "$abc_1"], "var-nonascii": ["$é", "$日本", "$aé"], "var-brace": ["${a}"],
        "var-brace-nonascii": ["${é}", "${a é}"], "var-brace-open": ["${a"], "elref": ["#r~w", "#r@tl", "^~h"],
        "elref-nonascii": ["#é~w", "#r~é", "#r@é"], "op": ["+", "*", "/", "%"], "minus": ["-"], "lparen": ["("], "rparen": [")"],
        "comma": [","], "str": ["'s'", '"t"'], "str-escape": ["'a\\n'", "'\\'"], "str-open": ["'abc"], "func": ["abs(", "max(", "nosuch("],
        "word": ["lt", "and", "pi"], "word-nonascii": ["é", "日本", "π"], "dot": ["."], "percent": ["50%"], "space": [" ", "\t"],
        "dollar": ["$", "$$", "$1"]}


def exprlex_doc(toks, ctx, rnd):
    e = " ".join(rnd.choice(ETOK[t]) for t in toks) if rnd.random() < 0.5 else "".join(rnd.choice(ETOK[t]) for t in toks)
    e = e.replace("&", "&amp;").replace("<", "&lt;").replace('"', "&quot;")
    pre = '<rect id="r" wh="4"/><var a="3" abc_1="2"/>'
    body = {"attr-braces": f'<rect wh="2" data-v="{{{{{e}}}}}"/>', "attr-plain": f'<rect wh="2" data-v="{e}" x="{e}"/>',
            "if-test": f'<if test="{e}"><rect wh="1"/></if>', "loop-while": f'<loop while="{e}"><rect wh="1"/><var a="0"/></loop>',
            "loop-count": f'<loop count="{e}"><rect wh="1"/></loop>', "var-value": f'<var v="{e}"/><rect wh="1" data-v="$v"/>',
            "text": f'<rect wh="9" text="{e}"/><text>{e}</text>', "for-data": f'<for var="i" data="{e}"><rect wh="1" data-v="$i"/></for>',
            "reuse-attr": f'<specs><rect id="t" wh="$k"/></specs><reuse href="#t" k="{e}"/>'}[ctx]
    return ("<svg>" + pre + body + "</svg>").encode("utf-8")


def exprnum_doc(c):
    f, a, ctx = c["fn"], c["args"], c["ctx"]
    if ctx == "attr-braces":
        e = (f" {f} ".join(f"({x})" for x in a)) if f in "+-*/%" else f"{f}({', '.join(a)})"
        e = e.replace("<", "&lt;")
        body = (f'<rect wh="2" data-v="{{{{{e}}}}}"/><rect wh="{{{{{e}}}}}" xy="1 1"/>'
                f'<text xy="0 9" text="{{{{{e}}}}}"/>')
    else:
        x = "{{" + a[0] + "}}"
        body = {"loop-count": f'<loop count="{x}"><rect wh="1"/></loop>',
                "loop-start-step": f'<loop count="3" loop-var="i" start="{x}" step="{x}"><rect wh="1" xy="$i 0"/></loop>',
                "geometry": f'<rect xy="{x}" wh="{x}"/><circle cxy="{x}" r="{x}"/><line xy1="{x}" xy2="0"/><rect id="q" wh="3"/><rect xy="#q|h {x}" wh="#q {x}%"/>',
                "for-data": f'<for var="i" data="{x}, {x}"><rect wh="1" xy="$i 0"/></for>',
                "repeat-text": f'<rect wh="9" text="t" text-offset="{x}" text-dxy="{x}"/><text xy="0" font-size="{x}" text="a\\nb" line-spacing="{x}"/>',
                "config-limit": f'<config loop-limit="{x}" depth-limit="{x}" var-limit="{x}" border="{x}" scale="{x}"/><rect wh="2"/>',
                "font-size": f'<config font-size="{x}"/><rect wh="9" text="t"/>',
                "seed": f'<config seed="{x}"/><rect wh="{{{{1 + random()}}}}"/>'}[ctx]
    return ("<svg>" + body + "</svg>").encode("utf-8")


VALUE = {"empty": "", "space": " ", "word": "abc", "unit": "1em 2em", "mixed": "1.5 up", "comma-only": ",", "many": "1 2 3 4 5 6 7",
         "open-paren": "(1", "neg": "-1 -2", "pct": "50% 20%", "elref": "#r", "elref-missing": "#zz", "elref-loc": "#r@tl:10% 1 2", "elref-dangling": "#r@t:",
         "nan": "NaN", "inf": "inf -inf", "huge": "1e39 -1e39", "tiny": "1e-46", "expr": "{{1 + 1}}", "expr-list": "{{1, 2, 3}}", "nonascii": "é 日本",
         "loc": "@br", "dir": "#r|h", "sci": "1e1,2E-1", "plus": "+3 +.5", "dot": ". .", "semicolon": "a: b; ;; c"}
HOSTS = {"rect": ('rect', {"xy": "1 1", "wh": "4", "text": "t"}, None),
         "rect-content": ('rect', {"xy": "1 1", "wh": "4"}, "two\nlines"),
         "g": ('g', {}, '<rect wh="2" text="t"/>'),
         "text": ('text', {"xy": "1 1", "text": "a\nb"}, None),
         "line": ('line', {"xy1": "0 0", "xy2": "5 5", "text": "t"}, None),
         "connector": ('line', {"start": "#r", "end": "#q", "text": "t"}, None),
         "polyline-connector": ('polyline', {"start": "#r@b", "end": "#q@l", "text": "t"}, None),
         "circle": ('circle', {"cxy": "3 3", "r": "2"}, "txt"),
         "use": ('use', {"href": "#r"}, None),
         "reuse": ('reuse', {"href": "#r"}, None),
         "path": ('path', {"d": "M0 0 h5 v5 z", "text": "t"}, None),
         "root": None}


def attrlex_doc(c):
    """one element of kind `host` carrying attribute `attr` with a value of class `cls`; the
    element after it is placed relative to it, so its box is asked for"""
    attr, v = c["attr"], VALUE[c["cls"]]
    if attr.startswith("transform:"):
        f = attr.split(":")[1]
        name = "transform"
        v = v if f == "raw" else (f"{f}{v}" if c["cls"] == "open-paren" else f"{f}({v})")
    else:
        name = attr
    v = v.replace("&", "&amp;").replace("<", "&lt;").replace('"', "&quot;")
    pre = '<rect id="r" wh="4"/><rect id="q" xy="9 9" wh="2"/><clipPath id="cp"><rect wh="3"/></clipPath>'
    post = '<rect xy="^|h 1" wh="^ 50%"/><line start="^" end="#r"/>'
    if c["host"] == "root":
        return f'<svg {name}="{v}">{pre}<rect wh="2" text="t"/>{post}</svg>'.encode("utf-8")
    el, base, content = HOSTS[c["host"]]
    a = dict(base)
    a[name] = v
    at = " ".join(f'{k}="{x}"' for k, x in a.items())
    body = f"<{el} {at}>{content}</{el}>" if content is not None else f"<{el} {at}/>"
    return ("<svg>" + pre + body + post + "</svg>").encode("utf-8")


# --------------------------------------------------------------------------
# scanner inputs from token classes
# --------------------------------------------------------------------------
NUMS_ANY = ["10", "0", "3", "1.5", "0.25", "100"]
NUMS_SELF = ["-20", "-1.5", "+3", "-.5"]          # self-delimiting after any number
NUMS_EXOTIC = [".5", "1e1", "2E-1", "5.", "-.5e+1", "1e-2"]


LEXCLASS = {"digit": ["10", "0", "3", "1.5", "100", "1e1", "5.", "2E-1"], "sign": ["-20", "-1.5", "+3", "-.5", "+.25", "-.5e+1"],
            "dot": [".5", ".25", ".5e1"]}


def path_string(toks, rnd, svg_only=True, lexclass=None):
    """Concretise a token-class sequence; when no separator token stands between two
    numbers the second one is spelled so that the grammar still splits them.
    lexclass: force the first character class of every number that is free to choose
    it ("digit" / "sign" / "dot")."""
    out = []
    prev_num = None
    forced = LEXCLASS.get(lexclass)
    for i, t in enumerate(toks):
        if t in ("n", "f"):
            if t == "f":
                s = rnd.choice(["0", "1"])
                if prev_num is not None and prev_num[1] != "f":
                    out.append(" ")       # a flag directly after a number needs a separator
            elif prev_num is not None:
                # directly after a number or a flag without separator
                if prev_num[1] == "f":
                    s = rnd.choice(NUMS_ANY + NUMS_SELF + NUMS_EXOTIC)   # flags are single characters
                elif "." in prev_num[0] or "e" in prev_num[0].lower():
                    s = rnd.choice(NUMS_SELF + [".5", ".25"])
                else:
                    s = rnd.choice(NUMS_SELF)
            else:
                s = rnd.choice(forced or (NUMS_ANY + NUMS_SELF + NUMS_EXOTIC))
            if forced and t == "n" and prev_num is not None:
                # keep the forced class where the grammar still splits the two numbers
                if lexclass == "sign" or (lexclass == "dot" and prev_num[1] != "f" and ("." in prev_num[0] or "e" in prev_num[0].lower())):
                    s = rnd.choice(forced)
            out.append(s)
            prev_num = (s, t)
        elif t == "s":
            out.append(rnd.choice([" ", ",", " , ", "\n", "\t"]))
            prev_num = None
        elif t == "j":
            out.append(rnd.choice(["x", "#", "!", "é", "$v", "{{"]))
            prev_num = None
        else:
            out.append(t if rnd.random() < 0.5 else t.lower())
            prev_num = None
    return "".join(out)


# --------------------------------------------------------------------------
# byte mutation
# --------------------------------------------------------------------------
DICT = ["$é".encode(), "{{$日本 + 1}}".encode(), "${é}".encode(), "#é~w".encode(), "é".encode(), b"{{", b"}}", b"((", b"))", b"--", b" Z ", b"]]>", b"&", b"&amp;", b"<", b">", b'"', b"'", b"\xff", b"\xc3", b"\x00", b"$", b"${", b"#",
        b"^", b"|h", b"@tl", b"~w", b"%", b"1e999", b"-", b"<!--", b"-->", b"<![CDATA[", b"<?", b"?>", b"<svg>", b"</svg>", b"<g>", b"</g>",
        b"<reuse href=\"#a\"/>", b"<loop count=\"99\">", b"</loop>", b"<specs>", b"</specs>", b" id=\"a\"", b" xy=\"#a|h\"", b" wh=\"#a\"",
        b" surround=\"#a\"", b" start=\"#a\" end=\"#a\"", b"\n", b" ", b"nan", b"inf", b"0x10", b"1e-40", b"99999999999999999999"]


def mutate(data, rnd):
    data = bytearray(data)
    for _ in range(rnd.choice([1, 1, 2, 3, 5])):
        op = rnd.randrange(6)
        pos = rnd.randrange(len(data) + 1) if data else 0
        if op == 0 and data:
            del data[pos % len(data)]
        elif op == 1:
            data[pos:pos] = rnd.choice(DICT)
        elif op == 2 and data:
            data[pos % len(data)] = rnd.randrange(256)
        elif op == 3 and len(data) > 4:
            a, b = sorted(rnd.randrange(len(data)) for _ in range(2))
            data[pos:pos] = data[a:b][:200]
        elif op == 4 and len(data) > 4:
            a, b = sorted(rnd.randrange(len(data)) for _ in range(2))
            del data[a:min(b, a + 50)]
        else:
            tok = rnd.choice(DICT)
            if data:
                p = pos % len(data)
                data[p:p + len(tok)] = tok
    return bytes(data)
