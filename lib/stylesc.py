"""Binding of spec/Styles.tla: vocabulary of reserved classes (from the styles
reference and the SVG colour keywords, not from the code), concretisation of
class sets into documents, parsing of the injected <style>/<defs>."""
import re

import vlib

SVG_COLOURS = """aliceblue antiquewhite aqua aquamarine azure beige bisque black blanchedalmond blue blueviolet brown
burlywood cadetblue chartreuse chocolate coral cornflowerblue cornsilk crimson cyan darkblue darkcyan darkgoldenrod
darkgray darkgreen darkgrey darkkhaki darkmagenta darkolivegreen darkorange darkorchid darkred darksalmon darkseagreen
darkslateblue darkslategray darkslategrey darkturquoise darkviolet deeppink deepskyblue dimgray dimgrey dodgerblue
firebrick floralwhite forestgreen fuchsia gainsboro ghostwhite gold goldenrod gray grey green greenyellow honeydew
hotpink indianred indigo ivory khaki lavender lavenderblush lawngreen lemonchiffon lightblue lightcoral lightcyan
lightgoldenrodyellow lightgray lightgreen lightgrey lightpink lightsalmon lightseagreen lightskyblue lightslategray
lightslategrey lightsteelblue lightyellow lime limegreen linen magenta maroon mediumaquamarine mediumblue mediumorchid
mediumpurple mediumseagreen mediumslateblue mediumspringgreen mediumturquoise mediumvioletred midnightblue mintcream
mistyrose moccasin navajowhite navy oldlace olive olivedrab orange orangered orchid palegoldenrod palegreen
paleturquoise palevioletred papayawhip peachpuff peru pink plum powderblue purple red rosybrown royalblue saddlebrown
salmon sandybrown seagreen seashell sienna silver skyblue slateblue slategray slategrey snow springgreen steelblue tan
teal thistle tomato turquoise violet wheat white whitesmoke yellow yellowgreen""".split()

TEXT_CLASSES = ["d-text-bold", "d-text-normal", "d-text-light", "d-text-italic", "d-text-monospace", "d-text-pre",
                "d-text-smallest", "d-text-smaller", "d-text-small", "d-text-medium", "d-text-large", "d-text-larger",
                "d-text-largest", "d-text-ol", "d-text-ol-thinner", "d-text-ol-thin", "d-text-ol-medium", "d-text-ol-thick",
                "d-text-ol-thicker"]
STROKE_CLASSES = ["d-thinner", "d-thin", "d-thick", "d-thicker"]
ARROW_CLASSES = ["d-arrow", "d-biarrow"]
DASH_CLASSES = ["d-dash", "d-dot", "d-dot-dash", "d-flow", "d-flow-slower", "d-flow-slow", "d-flow-fast", "d-flow-faster", "d-flow-rev"]
PATTERN_BASES = ["d-grid", "d-grid-h", "d-grid-v", "d-hatch", "d-crosshatch", "d-stipple"]
SHADOW_CLASSES = ["d-softshadow", "d-hardshadow"]


def full_vocabulary():
    v = {}
    for c in SVG_COLOURS + ["none"]:
        for pre in ("d-", "d-fill-", "d-text-", "d-text-ol-"):
            if c == "none" and pre in ("d-text-", "d-text-ol-"):
                pass
            v[pre + c] = "colour"
    for k in TEXT_CLASSES:
        v[k] = "text"
    for k in STROKE_CLASSES:
        v[k] = "stroke"
    for k in ARROW_CLASSES:
        v[k] = "arrow"
    for k in DASH_CLASSES:
        v[k] = "dash"
    for b in PATTERN_BASES:
        v[b] = "pattern"
        for n in (1, 2, 5, 10, 37, 100):
            v[f"{b}-{n}"] = "pattern"
        v[f"{b}-05"] = "pattern"      # the same spacing as -5 spelled differently: a class (and id) of its own
    for k in SHADOW_CLASSES:
        v[k] = "shadow"
    return v


def document(classes, with_text, root=True, author=False, arrows_on_line=True, place="shape", form=None):
    """A document whose elements use exactly the given classes (place "tspan": the
    classes are spread over the author-written <tspan> children of a <text>)."""
    line_cls = [k for k in classes if k in ARROW_CLASSES] if arrows_on_line else []
    rect_cls = [k for k in classes if k not in line_cls]
    root_cls = []
    if place == "root" and root:
        # every second class on the root <svg> itself
        root_cls, rect_cls = rect_cls[0::2], rect_cls[1::2]
    body = ""
    if author:
        body += '<style>.mine { fill: red; } /* author */</style><defs><linearGradient id="lg"><stop offset="0" stop-color="red"/></linearGradient></defs>'
    if place == "tspan":
        body += '<rect id="s" xy="0 0" wh="20 10"/>'
        parts = [rect_cls[:1], rect_cls[1:2], rect_cls[2:]]
        spans = "".join(f'<tspan class="{" ".join(p)}">t{i}</tspan>' if p else f"<tspan>t{i}</tspan>" for i, p in enumerate(parts))
        body += f'<text x="0" y="30">{spans}</text>'
    else:
        t = ' text="Label"' if with_text else ""
        c = f' class="{" ".join(rect_cls)}"' if rect_cls else ""
        body += f'<rect id="s" xy="0 0" wh="20 10"{c}{t}/>'
    if line_cls:
        body += f'<line id="l" xy1="0 20" xy2="20 20" class="{" ".join(line_cls)}"/>'
    if form == "svg-in-g":
        return f"<g><svg>{body}</svg></g>"
    if form == "svg-after-shape":
        return f'<rect wh="1"/><svg>{body}</svg>'
    if place == "root" and root:
        return f'<svg class="{" ".join(root_cls)}">{body}</svg>' if root_cls else f"<svg>{body}</svg>"
    return f"<svg>{body}</svg>" if root else body


class Styled:
    """Parsed view of an output document: used classes, emitted rules, definitions."""

    def __init__(self, out):
        self.root = vlib.parse_fragment(out)
        self.used = set()
        self.elems = set()
        self.style_text = []
        self.def_ids = []
        for e in vlib.elements(self.root):
            self.elems.add(e.name)
            in_defs = False
            p = e.parent
            while p is not None:
                if p.kind == "el" and p.name in ("defs", "pattern", "marker", "filter"):
                    in_defs = True
                p = p.parent
            if not in_defs:
                self.used.update(e.classes())
            if e.name == "style":
                self.style_text.append(e.text_content())
            if in_defs and "id" in e.attrs:
                self.def_ids.append(e.attrs["id"])
        css = "\n".join(self.style_text)
        self.css = css
        self.rules = []       # (selector text, body)
        for m in re.finditer(r"([^{}]+)\{([^{}]*)\}", css):
            self.rules.append((m.group(1).strip(), m.group(2)))
        self.rule_classes = set()
        for sel, _ in self.rules:
            self.rule_classes.update(re.findall(r"\.(d-[A-Za-z0-9-]+)", sel))
        self.urls = re.findall(r"url\(#([^)]+)\)", css)
        # url references inside definitions
        for e in vlib.elements(self.root):
            for v in e.attrs.values():
                self.urls += re.findall(r"url\(#([^)]+)\)", v)

    def injected(self):
        return any("stroke-linecap" in t or "background:" in t for t in self.style_text)
