"""Binding of spec/Interp.tla to the implementation: concretise abstract
documents exported by TLC into svgdx XML, run them, project the output back to
the abstract observable (rendered items with probe values, result class, end
probe) and compare with what the specification predicts."""
import json
import random

import vlib

FAMILY_DEFAULTS = {
    # family: constants of the MC / Gen runs
    "depth": dict(MaxNodes=4, MaxDepth=4, DepthLimits={2, 3}, LoopLimits={3}, VarLimits={3}, StrMode=False, InitVal=0),
    "flat": dict(MaxNodes=4, MaxDepth=2, DepthLimits={3}, LoopLimits={3}, VarLimits={3}, StrMode=False, InitVal=0),
    "loop": dict(MaxNodes=3, MaxDepth=3, DepthLimits={6}, LoopLimits={2}, VarLimits={3}, StrMode=False, InitVal=0),
    "scope": dict(MaxNodes=4, MaxDepth=3, DepthLimits={8}, LoopLimits={4}, VarLimits={3}, StrMode=False, InitVal=0),
    "escw": dict(MaxNodes=4, MaxDepth=3, DepthLimits={8}, LoopLimits={4}, VarLimits={3}, StrMode=False, InitVal=0),
    "scope0": dict(MaxNodes=4, MaxDepth=3, DepthLimits={8}, LoopLimits={4}, VarLimits={3}, StrMode=False, InitVal=-1),
    "order": dict(MaxNodes=4, MaxDepth=2, DepthLimits={8}, LoopLimits={4}, VarLimits={3}, StrMode=False, InitVal=-1),
    "reuse": dict(MaxNodes=4, MaxDepth=3, DepthLimits={8}, LoopLimits={4}, VarLimits={3}, StrMode=False, InitVal=0),
    "looplim": dict(MaxNodes=3, MaxDepth=3, DepthLimits={6}, LoopLimits={2}, VarLimits={3}, StrMode=False, InitVal=0),
    "config": dict(MaxNodes=4, MaxDepth=3, DepthLimits={4}, LoopLimits={2}, VarLimits={3}, StrMode=False, InitVal=0),
    "rng": dict(MaxNodes=4, MaxDepth=3, DepthLimits={8}, LoopLimits={4}, VarLimits={3}, StrMode=False, InitVal=0),
    "var": dict(MaxNodes=3, MaxDepth=2, DepthLimits={6}, LoopLimits={4}, VarLimits={2, 4}, StrMode=True, InitVal=1),
}

DESIGN_INVARIANTS = ("DepthIsNesting", "ScopeBalanced", "SpecsBalanced", "CleanAtEnd", "ResultIsIdeal", "EvalOnce", "PrefixIdeal")
DESIGN_PROPERTIES = ("PendingShrinks",)
LIVENESS_PROPERTIES = ("Finishes",)


def constants(family, deviations=(), **over):
    c = dict(FAMILY_DEFAULTS[family])
    c.update(over)
    c["Family"] = family
    c["Deviations"] = set(deviations)
    return c


def mc_cfg(family, deviations=(), export=False, liveness=False, **over):
    inv = list(DESIGN_INVARIANTS) if not deviations else []
    if export:
        inv.append("Export")
    props = () if deviations else (DESIGN_PROPERTIES + (LIVENESS_PROPERTIES if liveness else ()))
    return vlib.cfg_text(constants=constants(family, deviations, **over), invariants=inv,
                         properties=props, view="view")


# --------------------------------------------------------------------------
# concretisation
# --------------------------------------------------------------------------
CONT_NAMES = ["a", "svg", "switch"]
TEXTCONT_NAMES = ["title", "desc"]
# elements whose content is not processed: text-content elements and embedded foreign content
# (a namespaced <svg> is copied through as it stands)
TEXTCONT_FORMS = ["<title>c{i}</title>", "<desc>c{i}</desc>", "<style>.c{i} {{ fill: red; }}</style>",
                  '<svg xmlns="http://www.w3.org/2000/svg" width="1" height="1"><rect width="1" height="1"/></svg>',
                  '<svg xmlns="http://www.w3.org/2000/svg" width="1" height="1"/>',
                  '<svg xmlns="http://www.w3.org/2000/svg"><g><g><circle r="1"/></g></g><!-- c{i} --></svg>']


def expr_str(e, strmode):
    t = e["t"]
    if t == "lit":
        return ("x" * e["v"]) if strmode else str(e["v"])
    if t == "var":
        return "$" + e["x"]
    if t == "inc":
        return "{{$%s + 1}}" % e["x"]
    if t == "lt":
        return "{{lt($%s, %d)}}" % (e["x"], e["v"])
    if t == "ge":
        return "{{ge($%s, %d)}}" % (e["x"], e["v"])
    if t == "sub":
        return "{{$%s - %d}}" % (e["x"], e["v"])
    if t == "dbl":
        return "$%s$%s" % (e["x"], e["x"])
    raise ValueError(e)


def cond_str(e, rnd):
    """a condition: non-zero is true, however small - the same test may be written scaled
    down below the three decimals numbers are printed with"""
    s = expr_str(e, False)
    if e["t"] in ("lt", "ge", "sub") and rnd.random() < 0.35:
        return "{{(" + s[2:-2] + ") * " + rnd.choice(["0.0004", "0.00004", "-0.00002"]) + "}}"
    return s


class Conc:
    """One concretisation of an abstract document.  Indented variants put white space
    after elements and, optionally, before the first child of a container (a text node
    of its own for the tag list)."""

    def __init__(self, rec, rnd, wrap=True, indent=False):
        self.rec = rec
        self.rnd = rnd
        self.strmode = rec["str"]
        self.wrap = wrap
        self.nl = "\n" if indent else ""
        # white space BEFORE the first child as well (indented documents): a text node of its
        # own for the tag list, which must not matter
        self.lead = rnd.choice(["", "\n  ", " "]) if indent else ""
        self.cont_name = rnd.choice(CONT_NAMES)
        self.tc_form = rnd.choice(TEXTCONT_FORMS)
        # loop family: the loop variable `a` takes values start, start+step, ...; scale them
        # by a dyadic factor (exact in f32) to cover fractional starts and steps
        # (2^-11 has eleven decimals: the loop variable keeps its full value, not a rounded one)
        # (list items of <for> are expression values and print like every svgdx number, with
        # three decimals: documents with a <for> keep to scales that survive that)
        def has_for(nodes):
            return any(n["k"] == "loop" and n["form"] == "for" or has_for(n["ch"]) for n in nodes)
        scales = [1, 1, 0.5, 0.25] if has_for(rec["doc"]) else [1, 1, 0.5, 0.25, 2 ** -11]
        self.vscale = rnd.choice(scales) if rec.get("family") in ("loop", "looplim") else 1
        # per-shape spelling variants (order family): what kind of element a leaf
        # is and how it spells its position; the abstract geometry is unchanged
        self.shape = {}
        self.spell = {}
        self.points = set()
        self.abs_leaves = []
        if rec.get("family") == "order":
            def walk(nodes):
                for n in nodes:
                    if n["k"] == "leaf" and n["ref"] == 0 and not n["href"]:
                        self.abs_leaves.append(n["id"])
                    if n["k"] == "leaf":
                        # ("linewh": a line given by its start and a width / height; "use": an instance
                        # of a 2 x 2 template kept in <defs>)
                        self.shape[n["id"]] = rnd.choice(["rect", "rect", "circle", "point", "linewh", "use"])
                        self.spell[n["id"]] = rnd.choice(["xy", "xy", "native", "native+dxy", "xy2"])
                        if self.shape[n["id"]] == "point":
                            self.points.add(n["id"])
                    walk(n["ch"])
            walk(rec["doc"])

    def probe_scales(self):
        """leaf ids whose probe reads the (scaled) loop variable a"""
        if self.vscale == 1:
            return {}
        out = {}

        def walk(nodes):
            for n in nodes:
                if n["k"] == "leaf" and n["rd"] == "a":
                    out[n["id"]] = self.vscale
                walk(n["ch"])
        walk(self.rec["doc"])
        return out

    def width_of(self, i):
        return 0 if self.shape.get(i) == "point" else 2

    def varied_leaf(self, n):
        i = n["id"]
        sh = self.shape[i]
        base = f'id="n{i}" class="p{i}"'
        X = 3 * i
        nl = self.nl
        if sh == "linewh":
            xs = f'#n{n["ref"]}@r {3 - self.width_of(n["ref"])}' if n["ref"] > 0 else str(X)
            # the length may be taken from another shape of width 2 (one placed by numbers): the
            # start is known at once, the end only when that shape is
            donors = [k for k in self.abs_leaves if k != i and self.shape.get(k) in ("rect", "circle")]
            w = f"#n{self.rnd.choice(donors)}~w" if (n["ref"] == 0 and donors and self.rnd.random() < 0.6) else "2"
            return f'<line {base} x1="{xs}" y1="1" width="{w}" height="0" data-v="-"/>{nl}'
        if sh == "use":
            self.need_use_template = True
            pos = f'xy="#n{n["ref"]}|h {3 - self.width_of(n["ref"])}"' if n["ref"] > 0 else f'x="{X}" y="0"'
            return f'<use {base} href="#usetpl" {pos} data-v="-"/>{nl}'
        if n["ref"] > 0:
            wt = self.width_of(n["ref"])
            if sh == "circle":
                return f'<circle {base} cxy="#n{n["ref"]}@r {4 - wt} 0" r="1" data-v="-"/>{nl}'
            size = "" if sh == "point" else (' width="2" height="2"' if n["lit"] else ' wh="2"')
            if sh == "rect":
                # the same place written through the far corner or the centre (the reference's
                # right edge mid-point is at height 1, or 0 for a point)
                rcy = 0 if wt == 0 else 1
                sp = self.rnd.choice(["dir", "dir", "xy2", "cxy", "cx-y", "x2-y"])
                if sp == "cx-y":
                    # one axis through a reference, the other as a number
                    return f'<rect {base} cx="#n{n["ref"]}@r {3 - wt + 1}" y="0"{size} data-v="-"/>{nl}'
                if sp == "x2-y":
                    return f'<rect {base} x2="#n{n["ref"]}~x2 {3 - wt + 2}" y="0"{size} data-v="-"/>{nl}'
                if sp == "xy2":
                    return f'<rect {base} xy2="#n{n["ref"]}@r {3 - wt + 2} {2 - rcy}"{size} data-v="-"/>{nl}'
                if sp == "cxy":
                    return f'<rect {base} cxy="#n{n["ref"]}@r {3 - wt + 1} {1 - rcy}"{size} data-v="-"/>{nl}'
            return f'<{sh} {base} xy="#n{n["ref"]}|h {3 - wt}"{size} data-v="-"/>{nl}'
        if sh == "circle":
            return f'<circle {base} cxy="{X + 1} 1" r="1" data-v="-"/>{nl}'
        if sh == "point":
            return f'<point {base} xy="{X} 0"/>{nl}'
        sp = self.spell[i]
        if sp == "xy2":
            size = 'width="2" height="2"' if n["lit"] else 'wh="2"'
            return f'<rect {base} xy2="{X + 2} 2" {size} data-v="-"/>{nl}'
        if sp == "native":
            return f'<rect {base} x="{X}" y="0" width="2" height="2" data-v="-"/>{nl}'
        if sp == "native+dxy":
            d = self.rnd.choice(['dxy="3 0"', 'dx="3"'])
            return f'<rect {base} x="{X - 3}" y="0" width="2" height="2" {d} data-v="-"/>{nl}'
        size = 'width="2" height="2"' if n["lit"] else 'wh="2"'
        return f'<rect {base} xy="{X} 0" {size} data-v="-"/>{nl}'

    def seq(self, nodes):
        """a list of siblings; remembers the shape written just before each node ("^")"""
        out = []
        prev = None
        for c in nodes:
            self._prev_shape = prev
            out.append(self.node(c))
            prev = c["id"] if (c["k"] == "leaf" and not c["href"]) else None
        self._prev_shape = None
        return "".join(out)

    def node(self, n):
        prev_shape = getattr(self, "_prev_shape", None)     # (rendering the children resets it)
        k = n["k"]
        i = n["id"]
        nl = self.nl
        if k == "leaf" and i in self.shape and n["rd"] == "-" and not n["href"] and not n["rnd"] and not n["content"] and n["ref"] >= 0:
            return self.varied_leaf(n)
        if k == "leaf":
            a = [f'id="n{i}"'] if not n["href"] else [f'id="r{n["href"]}"']
            a.append(f'class="p{i}"' if not n["href"] else
                     (f'class="p{i} rc{n["href"]} n{i}"' if n["href"] % 2 == 0 else f'class="p{i} n{i}"'))
            if n["ref"] == -1:
                a.append('xy="^|h 1"')
            elif n["ref"]:
                a.append(f'xy="#n{n["ref"]}|h 1"')
            else:
                a.append(f'xy="{3 * i} 0"')
            a.append('width="2" height="2"' if n["lit"] else 'wh="2"')
            if n["rd"] != "-":
                a.append(f'data-v="${n["rd"]}"')
            elif n["val"] >= 0:
                a.append(f'data-v="{("x" * n["val"]) if self.strmode else n["val"]}"')
            else:
                a.append('data-v="-"')
            if n["rnd"]:
                a.append('data-r="{{random()}}"')
            if n["content"]:
                return f'<rect {" ".join(a)}>t{i}</rect>{nl}'
            return f'<rect {" ".join(a)}/>{nl}'
        kids = self.seq(n["ch"])
        if k == "g":
            a = [f'id="n{i}"'] if not n["href"] else [f'id="r{n["href"]}"', (f'class="rc{n["href"]} n{i}"' if n["href"] % 2 == 0 else f'class="n{i}"')]
            # an attribute local may be given by an expression over the OUTER variable of its own name
            # (x="{{$x * 0 + 1}}": evaluated in the enclosing scope, before the group binds x)
            own = (not self.strmode) and self.rec.get("iv", -1) >= 0 and self.rnd.random() < 0.3
            a += [f'{x}="{{{{${x} + {v - 100}}}}}"' if v >= 100 else
                  (f'{x}="{{{{${x} * 0 + {v}}}}}"' if own else f'{x}="{("x" * v) if self.strmode else v}"') for x, v in n["loc"]]
            if n["rd"] != "-" or n["val"] >= 0:
                # the group's own probe; written after the locals or before them
                pr = [f'data-v="${n["rd"]}"' if n["rd"] != "-" else f'data-v="{("x" * n["val"]) if self.strmode else n["val"]}"']
                cls = [x for x in a if x.startswith("class=")]
                if cls:
                    a[a.index(cls[0])] = cls[0][:-1] + f' p{i}"'
                else:
                    pr.append(f'class="p{i}"')
                a = (a + pr) if self.rnd.random() < 0.5 else (a[:1] + pr + a[1:])
            if not n["ch"] and self.rnd.random() < 0.5:
                return f'<g {" ".join(a)}/>{nl}'
            return f'<g {" ".join(a)}>{self.lead}{kids}</g>{nl}'
        if k == "cont":
            if n["content"]:
                return self.tc_form.format(i=i) + nl
            return f'<{self.cont_name}>{self.lead}{kids}</{self.cont_name}>{nl}'
        if k == "var":
            a = [f'{x}="{fmtnum(e["v"] * self.vscale) if (x == "a" and e["t"] == "lit" and self.vscale != 1) else expr_str(e, self.strmode)}"'
                 for x, e in n["asg"]]
            return f'<var {" ".join(a)}/>{nl}'
        if k == "if":
            if n["ref"] > 0:
                # the test reads the width (2) of another shape: value = the literal of the condition
                test = self.rnd.choice(["{{{{#n{r}~w - 2 + {v}}}}}", "{{{{eq(#n{r}~w, 2) * {v}}}}}", "{{{{gt(#n{r}~h, 1) and {v}}}}}"]).format(r=n["ref"], v=n["cond"]["v"])
                return f'<if test="{test}">{self.lead}{kids}</if>{nl}'
            return f'<if test="{cond_str(n["cond"], self.rnd)}">{self.lead}{kids}</if>{nl}'
        if k == "loop":
            if n["form"] == "for":
                sep = self.rnd.choice([", ", ","])
                items = [fmtnum((i + 1) * self.vscale) for i in range(n["cnt"])]
                data = sep.join(items)
                pre = ""
                # the list, or its first part, may be held by a variable (a list value, the empty
                # list included: a variable standing in a list contributes its items)
                k = self.rnd.choice([None, None, len(items), len(items) - 1, 0]) if items else 0
                if k is not None and k >= 0 and (len(sep.join(items[:k])) <= 64 and not self.strmode):
                    pre = f'<var fl{i}="{sep.join(items[:k])}"/>'
                    data = sep.join([f"$fl{i}"] + items[k:])
                a = [f'var="{n["lv"]}"', f'data="{data}"']
                if n["rd"] != "-":
                    a.append(f'idx-var="{n["rd"]}"')
                elif self.rnd.random() < 0.3:
                    a.append('idx-var="unusedidx"')
                return f'{pre}<for {" ".join(a)}>{self.lead}{kids}</for>{nl}'
            if n["form"] == "count":
                if n["cond"]["t"] == "var":
                    a = [self.rnd.choice([f'count="${n["cond"]["x"]}"', f'count="{{{{${n["cond"]["x"]}}}}}"'])]
                else:
                    a = [f'count="{n["cnt"]}"']
                if n["lv"] != "-":
                    a.append(f'loop-var="{n["lv"]}"')
                    if n["start"] != 0 or self.rnd.random() < 0.5:
                        a.append(f'start="{fmtnum(n["start"] * self.vscale)}"')
                    if n["step"] != 1 or self.vscale != 1 or self.rnd.random() < 0.5:
                        a.append(f'step="{fmtnum(n["step"] * self.vscale)}"')
            else:
                a = [f'{n["form"]}="{cond_str(n["cond"], self.rnd)}"']
            return f'<loop {" ".join(a)}>{self.lead}{kids}</loop>{nl}'
        if k == "reuse":
            # the target may be named as "the previous element" when it is just that
            by_prev = prev_shape == n["href"] and self.rnd.random() < 0.5
            a = [f'id="r{i}"', 'href="^"' if by_prev else f'href="#n{n["href"]}"'] + \
                [f'{x}="{{{{${x} + {v - 100}}}}}"' if v >= 100 else f'{x}="{v}"' for x, v in n["loc"]]
            if n["ref"] > 0:
                a.append(f'xy="#n{n["ref"]}|h 1"')
            if i % 2 == 0:
                a.append(f'class="rc{i}"')     # classes of the reuse element are inherited by the instance
            return f'<reuse {" ".join(a)}/>{nl}'
        if k == "void":
            return self.rnd.choice([f'<g id="n{i}"/>', f'<g id="n{i}"></g>', f'<g id="n{i}"><style>.q{i} {{ fill: red; }}</style></g>',
                                    f'<g id="n{i}"><defs><rect id="vd{i}" wh="2"/></defs></g>']) + nl
        if k == "config":
            names = {"dl": "depth-limit", "ll": "loop-limit", "vl": "var-limit"}
            a = [f'{names[x]}="{v + (1 if (x == "dl" and self.wrap) else 0)}"' for x, v in n["loc"]]
            return f'<config {" ".join(a)}/>{nl}'
        if k == "specs":
            return f'<specs>{self.lead}{kids}</specs>{nl}'
        raise ValueError(k)

    def xml(self, doc=None):
        doc = self.rec["doc"] if doc is None else doc
        body = self.seq(doc)
        if getattr(self, "need_use_template", False):
            body = '<defs><rect id="usetpl" width="2" height="2"/></defs>' + self.nl + body
        if self.wrap:
            return f"<svg>{self.lead}{body}</svg>"
        return body

    def cfg(self):
        lim = self.rec["lim"]
        c = {"depth_limit": lim["dl"] + (1 if self.wrap else 0), "loop_limit": lim["ll"]}
        if self.strmode:
            c["var_limit"] = lim["vl"]
        return c


# --------------------------------------------------------------------------
# projection
# --------------------------------------------------------------------------
def fmtnum(x):
    return str(int(x)) if x == int(x) else repr(float(x))


def decode_value(s, strmode, scale=1):
    if s is None or s == "-" or s.startswith("$"):
        return -1
    if strmode:
        return len(s) if set(s) <= {"x"} else None
    try:
        f = float(s) / scale
        return int(f) if f == int(f) else f
    except ValueError:
        return None


def project_items(out, strmode, scales=None):
    """Rendered items of an output document: rect elements tagged p<i>.
    scales: {leaf id: factor} for probes that read a scaled variable."""
    scales = scales or {}
    root = vlib.parse_fragment(out)
    items = []
    for el in vlib.elements(root):
        if el.name not in ("rect", "circle", "g", "line", "use"):
            continue
        for c in el.classes():
            if c.startswith("p") and c[1:].isdigit():
                if el.name == "g":
                    x = 0
                elif el.name == "circle":
                    x = vlib.fnum(el.attrs.get("cx", "0")) - vlib.fnum(el.attrs.get("r", "0"))
                elif el.name == "line":
                    x = min(vlib.fnum(el.attrs.get("x1", "0")), vlib.fnum(el.attrs.get("x2", "0")))
                else:
                    x = vlib.fnum(el.attrs.get("x", "0"))
                items.append({"id": int(c[1:]), "v": decode_value(el.attrs.get("data-v"), strmode, scales.get(int(c[1:]), 1)),
                              "x": int(x) if x is not None and x == int(x) else x})
                break
    return items


LIMIT_KINDS = {"depth", "loop", "var"}


def result_class(resp):
    """Abstract result of a runner response: 'ok' | set of error kinds | crash."""
    st = resp["status"]
    if st == "ok":
        return "ok", set()
    if st == "err":
        errs = set((resp.get("ts", {}).get("end") or {}).get("errs") or [])
        return "err", errs
    return st, set()   # panic / abort / hang


def result_matches(expected, resp, also_ref=False):
    cls, errs = result_class(resp)
    if expected == "ok":
        return cls == "ok"
    if cls != "err":
        return False
    if expected in LIMIT_KINDS:
        if expected in errs:
            return True
        return also_ref and not (errs & LIMIT_KINDS)
    # 'ref', 'document': any non-limit error
    return not (errs & LIMIT_KINDS)


def probe_clean(resp):
    p = (resp.get("ts") or {}).get("probe")
    if not p:
        return False
    return p["depth"] == 0 and p["els"] == 0 and p["specs"] is False and p["h"] <= 1


def doc_key(rec):
    return json.dumps([rec["doc"], rec["lim"]], sort_keys=True)


def doc_brief(rec):
    def b(n):
        s = n["k"]
        if n["k"] == "leaf":
            s += ("@%d" % n["ref"]) if n["ref"] > 0 else ("^" if n["ref"] else "")
            s += (":" + n["rd"]) if n["rd"] != "-" else ""
            s += "+c" if n["content"] else ""
        if n["k"] == "loop":
            s += f'[{n["form"]} {n["cnt"]}]'
        if n["k"] == "reuse":
            s += "->%d" % n["href"]
        if n["ch"]:
            s += "(" + ",".join(b(c) for c in n["ch"]) + ")"
        return s
    return ",".join(b(n) for n in rec["doc"]) + " lim=" + json.dumps(rec["lim"])


# --------------------------------------------------------------------------
# the specification as an executable oracle for large documents
# --------------------------------------------------------------------------
def ideal_eval(records, tag):
    """records: list of dicts with doc, dl, ll, vl, str, iv.  Returns the list
    of predictions computed by TLC evaluating Sem.Ideal."""
    import os
    wd = vlib.workdir("ideal-" + tag)
    path = os.path.join(wd, "docs.ndjson")
    with open(path, "w") as f:
        for r in records:
            r = dict(r)
            if r.get("iv", -1) >= 0:
                lit = {"t": "lit", "x": "-", "v": r["iv"]}
                r["doc"] = [mk(0, "var", asg=[["a", lit], ["b", lit]])] + r["doc"]
            r["iv"] = -1
            f.write(json.dumps(r) + "\n")
    cfg = "INIT Init\nNEXT Next\nCHECK_DEADLOCK FALSE\n"
    r = vlib.run_tlc("IdealEval", cfg, tag, workers=1, env={"DOCS": path}, timeout=900)
    import shutil
    shutil.rmtree(wd, ignore_errors=True)
    preds = {x["i"]: x["p"] for x in r.replay}
    if len(preds) != len(records):
        raise vlib.ToolError(f"IdealEval returned {len(preds)} of {len(records)} predictions")
    return [preds[i + 1] for i in range(len(records))], r


N0 = {"id": 0, "k": "leaf", "ch": [], "ref": 0, "rd": "-", "val": -1, "rnd": False, "lit": False,
      "content": False, "loc": [], "asg": [], "form": "-", "cnt": 0, "lv": "-", "start": 0, "step": 1,
      "cond": {"t": "lit", "x": "-", "v": 0}, "href": 0}


def mk(i, k, **kw):
    n = dict(N0)
    n["ch"] = []
    n["loc"] = []
    n["asg"] = []
    n.update(id=i, k=k)
    n.update(kw)
    return n


# --------------------------------------------------------------------------
# generic family check: model check the design, export, replay, validate
# --------------------------------------------------------------------------
def model_check_family(rep, family, tier, deviations=(), export=True, workers=8, max_replay=None, on_replay=None, **over):
    cfg = mc_cfg(family, deviations, export=export, **over)
    r = vlib.run_tlc("MC_Interp", cfg, f"{family}-{'-'.join(deviations) or 'design'}", workers=workers,
                     timeout=3000 if tier == "thorough" else 600, max_replay=max_replay, on_replay=on_replay)
    if not deviations:
        if not r.ok:
            raise vlib.ToolError(f"design model of family {family} violates {r.violated}: specification error")
        rep.add_tlc(r, f"Interp design (safety + PendingShrinks), family {family}, {over or 'default bounds'}")
        # termination (liveness under weak fairness) on a bound one node smaller
        small = dict(over)
        small["MaxNodes"] = max(1, constants(family, **over)["MaxNodes"] - 1)
        rl = vlib.run_tlc("MC_Interp", mc_cfg(family, liveness=True, **small), f"{family}-live", workers=workers, timeout=900)
        if not rl.ok:
            raise vlib.ToolError(f"design model of family {family} violates {rl.violated} (liveness run): specification error")
        rep.add_tlc(rl, f"Interp design termination (Finishes), family {family}, MaxNodes={small['MaxNodes']}")
    return r


def negative_control(rep, family, deviation, expect, **over):
    """Sharpness self-check: with the named deviation the design invariants
    must fail in TLC (otherwise the model would be vacuous)."""
    c = constants(family, (deviation,), **over)
    cfg = vlib.cfg_text(constants=c, invariants=DESIGN_INVARIANTS, view="view")
    r = vlib.run_tlc("MC_Interp", cfg, f"neg-{family}-{deviation}", workers=4, timeout=600)
    rep.notes.setdefault("negative_controls", []).append(
        {"family": family, "deviation": deviation, "violated": r.violated, "expected": sorted(expect)})
    if r.violated not in expect:
        raise vlib.ToolError(f"negative control {deviation}/{family}: TLC reported {r.violated}, expected one of {expect}")


def replay_records(rep, recs, seed, tier, compare, variants=2, want_trace=True, tag="interp",
                   trace_budget=40000, deviation_preds=None):
    """Concretise every exported behaviour, run it on the real code, compare
    using `compare(rec, conc, resp) -> None | (signature, detail)`, then
    validate recorded traces against TraceStruct."""
    rnd = random.Random(seed)
    cases = []
    meta = {}
    for j, rec in enumerate(recs):
        for v in range(variants):
            c = Conc(rec, random.Random(rnd.random()), wrap=(v % 2 == 0), indent=(v // 2 % 2 == 1) or rnd.random() < 0.3)
            k = f"{tag}-{j}-{v}"
            cases.append({"k": k, "xml": c.xml(), "cfg": c.cfg(), "trace": want_trace, "trace_cap": 20000})
            meta[k] = (rec, c)
    res = vlib.run_cases(cases)
    traces = []
    for case in cases:
        k = case["k"]
        rec, c = meta[k]
        resp = res[k]
        rep.case(doc_key(rec) + str(c.wrap))
        bad = compare(rec, c, resp)
        if bad is None and resp["status"] in ("panic", "abort", "hang"):
            bad = ("crash:" + resp["status"], resp.get("err"))
        if bad is not None:
            sig, detail = bad
            # is the observed behaviour what a listed deviation of the spec predicts?
            if deviation_preds:
                for dev, preds in deviation_preds.items():
                    p = preds.get(doc_key(rec))
                    if p is not None and compare(p, c, resp) is None and (p["res"], p["items"]) != (rec["res"], rec["items"]):
                        sig = f"{dev}:{sig}"
                        break
            rep.violation(sig, {"abstract": doc_brief(rec), "record": {k2: rec[k2] for k2 in ("doc", "lim", "res", "items", "str")},
                                "xml": case["xml"], "cfg": case["cfg"], "status": resp["status"],
                                "errs": (resp.get("ts", {}).get("end") or {}).get("errs"),
                                "err": vlib.trunc(resp.get("err")), "out": vlib.trunc(resp.get("out"), 2000),
                                "probe": resp.get("ts", {}).get("probe"), "detail": detail})
        else:
            rep.traces += 1
        if want_trace and resp.get("trace"):
            traces.append((k, resp["trace"]))
    rep.sample({"abstract": doc_brief(meta[cases[0]["k"]][0]), "xml": cases[0]["xml"], "cfg": cases[0]["cfg"],
                "expected": meta[cases[0]["k"]][0]["res"]})
    if len(cases) > 7:
        m = cases[len(cases) // 2]
        rep.sample({"abstract": doc_brief(meta[m["k"]][0]), "xml": m["xml"], "cfg": m["cfg"],
                    "expected": meta[m["k"]][0]["res"]})
    if want_trace:
        # budget: shuffle deterministically, validate up to trace_budget events
        rnd.shuffle(traces)
        sel, tot = [], 0
        for k, t in traces:
            if tot + len(t) > trace_budget:
                continue
            sel.append((k, t))
            tot += len(t)
        nval, nev, rejected = vlib.validate_traces(sel, tag)
        rep.traces += nval
        rep.notes["trace_events_validated"] = rep.notes.get("trace_events_validated", 0) + nev
        for k, matched, what in rejected:
            rec, c = meta[k]
            ev = None
            try:
                ev = json.loads(json.loads(what)) if what.startswith('"') else what
            except Exception:
                ev = what
            name = ev.get("name", "?") if isinstance(ev, dict) else "?"
            kind = ev.get("e", "?") if isinstance(ev, dict) else "?"
            rep.violation(f"trace-rejected:{kind}:{classify_name(name)}",
                          {"abstract": doc_brief(rec), "xml": c.xml(), "cfg": c.cfg(), "matched_events": matched,
                           "offending_event": ev,
                           "meaning": "the recorded execution is not a behaviour of TraceStruct.tla: bookkeeping "
                                      "state at this event differs from what the specification allows"})
    return res


def classify_name(name):
    if name in ("g", "symbol", "reuse", "loop", "for", "if", "specs", "var", "config", "defaults"):
        return name
    return "other"


def standard_compare(check_items=True, check_rng=False):
    def cmp(rec, c, resp):
        ok = result_matches(rec["res"], resp, also_ref=not rec.get("refsok", True))
        if not ok and rec.get("idealrc0", rec["res"]) != rec["res"]:
            # no exact boundary is claimed for reuse chains: accept the outcome of
            # an implementation in which an instance does not occupy its own level
            ok = result_matches(rec["idealrc0"], resp)
            if ok:
                return None
        if not ok:
            cls, errs = result_class(resp)
            return (f"result:{rec['res']}->{cls}",
                    f"specification predicts {rec['res']}, implementation returned {cls} {sorted(errs)}")
        if resp["status"] in ("ok", "err") and not probe_clean(resp):
            return ("probe-not-clean", f"end-of-transform probe {resp.get('ts', {}).get('probe')}")
        if rec["res"] == "ok" and check_items:
            try:
                items = project_items(resp["out"], rec["str"], c.probe_scales())
            except vlib.XmlError as e:
                return ("output-not-wellformed", str(e))
            exp = [it for it in rec["items"] if it["id"] not in c.points]
            if items != exp:
                return ("items", f"rendered items differ: expected {exp}, got {items}")
        if rec["res"] == "ok" and check_rng and rec.get("norefs"):
            n = resp.get("ts", {}).get("counts", {}).get("rng", 0)
            if n != rec["irng"]:
                return ("rng-count", f"PRNG advanced {n} times, specification says {rec['irng']}")
        return None
    return cmp


AS_BUILT = ("LateEnv", "AtomicGroupRetry", "StaleLookup")


def deviation_predictions(rep, family, devsets, wanted=None, tier="quick", **over):
    """For each deviation set (tuple of names) run the model with it and index
    its predictions by document.  Used to recognise a listed known finding
    semantically: the implementation does what the specification predicts
    for that deviation, and not what the design predicts."""
    out = {}
    for ds in devsets:
        # (only the predictions for the documents that are replayed are kept: `wanted`)
        keep = {}

        def pick(x, keep=keep):
            k = doc_key(x)
            if wanted is None or k in wanted:
                keep[k] = x
        r = model_check_family(rep, family, tier, deviations=ds, export=True, on_replay=pick, max_replay=0, **over)
        out["+".join(ds)] = keep
        rep.notes.setdefault("deviation_runs", []).append(
            {"family": family, "deviations": list(ds), "documents": r.exported, "states": r.distinct})
    return out


def doc_size(doc):
    return sum(1 + doc_size(n["ch"]) for n in doc)


def simulate_family(rep, family, seed, num, compare, devsets=(), tag=None, min_size=0, **over):
    """Larger documents than the exhaustive bound: random behaviours of the
    same specification (TLC -simulate); invariants are checked along them."""
    cfg = mc_cfg(family, export=True, **over)
    r = vlib.run_tlc("MC_Interp", cfg, f"{family}-sim", workers=8, simulate=num, depth=900, seed=seed, timeout=900)
    if not r.ok:
        raise vlib.ToolError(f"simulation of family {family} violates {r.violated}: specification error")
    uniq = {}
    for x in r.replay:
        if doc_size(x["doc"]) >= min_size:
            uniq.setdefault(doc_key(x), x)
    recs = list(uniq.values())
    rep.notes.setdefault("simulation", {})[family] = {"behaviours": len(r.replay), "distinct_documents": len(recs),
                                                       "bounds": {k: (sorted(v) if isinstance(v, set) else v) for k, v in over.items()}}
    rep.states += len(r.replay)
    rep.transitions += len(r.replay)
    preds = None
    if devsets and recs:
        # predictions of the listed deviations for exactly these documents
        import os
        import shutil
        wd = vlib.workdir("given-" + family)
        path = os.path.join(wd, "given.ndjson")
        with open(path, "w") as f:
            for x in recs:
                f.write(json.dumps({"rawdoc": x["rawdoc"], "lim": x["lim"]}) + "\n")
        preds = {}
        for ds in devsets:
            cfg = vlib.cfg_text(spec="SpecGiven", constants=constants(family, ds, **over), invariants=["Export"], view="view")
            rd = vlib.run_tlc("MC_Interp", cfg, f"{family}-given", workers=8, env={"GIVEN": path}, timeout=900)
            preds["+".join(ds)] = {doc_key(x): x for x in rd.replay}
        shutil.rmtree(wd, ignore_errors=True)
    replay_records(rep, recs, seed, "quick", compare, variants=1, tag=tag or ("s" + family), trace_budget=20000,
                   deviation_preds=preds)
    rep.last_preds = preds
    return recs


def feature_signature(doc):
    """which kinds of node (with their distinguishing options) a document contains"""
    feats = set()

    def walk(nodes, inside):
        for n in nodes:
            k = n["k"]
            f = k
            if k == "loop":
                f += ":" + n["form"] + ":" + n["cond"]["t"] + (":lv" if n["lv"] != "-" else "") + (":idx" if n["rd"] != "-" else "")
            elif k == "if":
                f += ":" + n["cond"]["t"]
            elif k == "leaf":
                f += (":ref" if n["ref"] > 0 else ":prev" if n["ref"] < 0 else "") + (":rd" if n["rd"] != "-" else "") + (":rnd" if n["rnd"] else "")
            elif k == "var":
                f += ":" + "+".join(sorted(e["t"] for _, e in n["asg"]))
            elif k in ("g", "reuse"):
                f += (":loc" if n["loc"] else "") + (":rd" if n["rd"] != "-" else "") + (":ref" if n["ref"] > 0 else "")
            feats.add(f + ("@" + inside if inside in ("specs", "loop", "g") else ""))
            walk(n["ch"], k)
    walk(doc, "")
    return ",".join(sorted(feats))


def family_check(rep, family, tier, seed, compare, over_quick, over_thorough, devsets=(), sample_quick=2500,
                 sample_thorough=40000, tag=None, trace_budget=None, need_outcomes=()):
    rnd = random.Random(seed)
    over = over_thorough if tier == "thorough" else over_quick
    classes = {}

    def count(x):
        key = x["res"] + ("/retried" if x["passes"] else "")
        classes[key] = classes.get(key, 0) + 1
    # (the thorough bounds export millions of documents: statistics are taken over all of them as
    # they stream by, a uniform reservoir is kept for stratification and replay)
    r = model_check_family(rep, family, tier, on_replay=count,
                           max_replay=(max(200000, 3 * sample_thorough) if tier == "thorough" else None), **over)
    rep.bounds[family] = {k: (sorted(v) if isinstance(v, set) else v) for k, v in constants(family, **over).items()}
    rep.notes.setdefault("outcome_classes", {})[family] = classes
    for need in need_outcomes:
        if need not in classes and not (need.find("/") < 0 and any(k.split("/")[0] == need for k in classes)):
            raise vlib.ToolError(f"family {family}: outcome class {need} never reached (vacuous): {classes}")
    recs = r.replay
    limit = sample_thorough if tier == "thorough" else sample_quick
    exhaustive = len(recs) <= limit
    if not exhaustive:
        # stratified by outcome class AND by which constructs the document combines, so that
        # neither rare outcomes nor rare combinations are drowned by the common ones
        groups = {}
        for x in recs:
            groups.setdefault(x["res"] + ("/retried" if x["passes"] else "") + "|" + feature_signature(x["doc"]), []).append(x)
        share = max(1, limit // len(groups))
        picked = []
        rest = []
        for g in groups.values():
            rnd.shuffle(g)
            # (a small group is taken whole: its members differ in the ORDER of the same constructs,
            # which is often the point)
            n = len(g) if len(g) <= 3 else share
            picked += g[:n]
            rest += g[n:]
        rnd.shuffle(rest)
        recs = picked + rest[:max(0, limit - len(picked))]
    rep.notes.setdefault("replayed", {})[family] = {"exported": r.exported or len(r.replay), "kept_for_sampling": len(r.replay),
                                                    "replayed": len(recs), "all": exhaustive and (r.exported or 0) <= len(r.replay)}
    preds = deviation_predictions(rep, family, devsets, wanted={doc_key(x) for x in recs}, tier=tier, **over) if devsets else None
    replay_records(rep, recs, rnd.random(), tier, compare, variants=2, tag=tag or ("f" + family),
                   trace_budget=trace_budget or (80000 if tier == "thorough" else 25000), deviation_preds=preds)
    rep.last_preds = preds
    return r


# --------------------------------------------------------------------------
# translation validation: T(P) versus T(twin(P)) on the real code
# --------------------------------------------------------------------------
def norm_tree(out):
    """Element tree of an output, as a comparable structure: whitespace-only
    text dropped, attribute order ignored."""
    root = vlib.parse_fragment(out)

    def walk(n):
        res = []
        for c in n.children:
            if c.kind == "el":
                attrs = dict(c.attrs)
                if "class" in attrs:
                    attrs["class"] = " ".join(sorted(attrs["class"].split()))
                res.append((c.name, tuple(sorted(attrs.items())), tuple(walk(c))))
            elif c.kind in ("text", "cdata"):
                if c.text.strip():
                    res.append(("#text", c.text.strip()))
            elif c.kind == "comment":
                res.append(("#comment", c.text))
        return res
    return walk(root)


def twin_check(rep, recs, seed, tag, what, deviation_preds=None, compare=None):
    """For every record run the document and its mechanically derived twin
    (rec['unr'], produced by Sem.Ideal) and require the same element tree.
    deviation_preds / compare: recognise a difference that is exactly what a listed
    deviation of the specification predicts for the document (a known finding seen
    through the twin)."""
    rnd = random.Random(seed)
    cases, meta = [], {}
    for j, rec in enumerate(recs):
        if rec["ideal"] != "ok":
            continue
        sub = random.Random(rnd.random())
        st = sub.getstate()
        wrap = sub.random() < 0.7
        c1 = Conc(rec, sub, wrap=wrap, indent=True)
        sub2 = random.Random()
        sub2.setstate(st)
        sub2.random()
        c2 = Conc(rec, sub2, wrap=wrap, indent=True)
        # same container names for both members of the pair
        c2.cont_name, c2.tc_form, c2.vscale = c1.cont_name, c1.tc_form, c1.vscale
        # a shared fixed random stream for optional attribute spellings
        c1.rnd = random.Random(j)
        c2.rnd = random.Random(j)
        x1, x2 = c1.xml(), c2.xml(rec["unr"])
        cfg = c1.cfg()
        cfg["depth_limit"] = 100
        cases.append({"k": f"{tag}-{j}-p", "xml": x1, "cfg": cfg})
        cases.append({"k": f"{tag}-{j}-t", "xml": x2, "cfg": cfg})
        meta[j] = (rec, x1, x2, cfg, c1)
    res = vlib.run_cases(cases)
    n = 0
    for j, (rec, x1, x2, cfg, c1) in meta.items():
        r1, r2 = res[f"{tag}-{j}-p"], res[f"{tag}-{j}-t"]
        rep.case(doc_key(rec) + what)
        bad = None
        if r1["status"] != "ok" or r2["status"] != "ok":
            bad = (f"{what}:status:{r1['status']}/{r2['status']}", "one member of the pair did not transform")
        else:
            try:
                t1, t2 = norm_tree(r1["out"]), norm_tree(r2["out"])
            except vlib.XmlError as e:
                t1, t2, bad = None, None, (f"{what}:not-wellformed", str(e))
            if bad is None and t1 != t2:
                bad = (f"{what}:tree-differs", "output of the document and of its twin differ")
        if bad and deviation_preds and compare:
            for dev, preds in deviation_preds.items():
                p = preds.get(doc_key(rec))
                if p is not None and (p["res"], p["items"]) != (rec["res"], rec["items"]) and compare(p, c1, r1) is None:
                    bad = (f"{dev}:{bad[0]}", bad[1] + f" (the document behaves as the deviation {dev} predicts)")
                    break
        if bad:
            rep.violation(bad[0], {"abstract": doc_brief(rec), "xml": x1, "twin_xml": x2, "cfg": cfg,
                                   "out": vlib.trunc(r1.get("out"), 3000), "twin_out": vlib.trunc(r2.get("out"), 3000),
                                   "err": vlib.trunc(r1.get("err")), "twin_err": vlib.trunc(r2.get("err")), "detail": bad[1]})
        else:
            n += 1
            rep.traces += 1
    if meta:
        j0 = sorted(meta)[len(meta) // 2]
        rep.sample({"abstract": doc_brief(meta[j0][0]), "xml": meta[j0][1], "twin": meta[j0][2]})
    rep.notes.setdefault("twin_pairs", {})[what] = {"pairs": len(meta), "equal": n}
