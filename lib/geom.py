"""Binding of spec/Geom.tla to the implementation: concretise geometry cases
(quarter user units) into svgdx documents, read the geometry of the output
with an independent parser and compare with the specification's prediction."""
import json
import random

import vlib

TOL = 0.0015   # 3-decimal output rounding


UNIT = 0.25     # user units per grid unit (a check may switch to a non-dyadic unit, e.g. 0.2)


def q(v):
    """grid units (quarters by default) -> attribute string"""
    x = v * UNIT
    s = ("%.3f" % x).rstrip("0").rstrip(".")
    return "0" if s in ("-0", "") else s


def run_geom_family(rep, family, tier, invariants, extra_constants=None):
    consts = {"Family": family, "Tier": tier}
    if extra_constants:
        consts.update(extra_constants)
    cfg = vlib.cfg_text(constants=consts, invariants=list(invariants) + ["Export"])
    r = vlib.run_tlc("MC_Geom", cfg, "geom-" + family, workers=8, timeout=900)
    if not r.ok:
        raise vlib.ToolError(f"Geom family {family}: TLC reports {r.violated}: specification error")
    rep.add_tlc(r, f"Geom.tla family {family} ({tier}), identities {list(invariants)}")
    return r.replay


# --------------------------------------------------------------------------
# elements from bounding boxes
# --------------------------------------------------------------------------
def ref_element(kind, b, id_="r", rnd=None):
    x1, y1, x2, y2 = b["x1"], b["y1"], b["x2"], b["y2"]
    w, h = x2 - x1, y2 - y1
    if kind == "circle" and w != h:
        kind = "ellipse"
    if kind == "rect":
        return f'<rect id="{id_}" x="{q(x1)}" y="{q(y1)}" width="{q(w)}" height="{q(h)}"/>'
    if kind == "box":
        # (an invisible box is placed like a rect: by its corner, its centre or its far corner)
        sp = rnd.randrange(3) if rnd is not None else 0
        if sp == 1:
            return f'<box id="{id_}" cxy="{q(x1 + w / 2)} {q(y1 + h / 2)}" wh="{q(w)} {q(h)}"/>'
        if sp == 2:
            return f'<box id="{id_}" xy2="{q(x2)} {q(y2)}" wh="{q(w)} {q(h)}"/>'
        return f'<box id="{id_}" x="{q(x1)}" y="{q(y1)}" width="{q(w)}" height="{q(h)}"/>'
    if kind == "circle":
        return f'<circle id="{id_}" cx="{q(x1 + w / 2)}" cy="{q(y1 + h / 2)}" r="{q(w / 2)}"/>'
    if kind == "ellipse":
        return f'<ellipse id="{id_}" cx="{q(x1 + w / 2)}" cy="{q(y1 + h / 2)}" rx="{q(w / 2)}" ry="{q(h / 2)}"/>'
    if kind == "line":
        # any of the four orientations of the diagonal
        o = rnd.randrange(4) if rnd is not None else (x1 // 4 + (y1 // 4) * 3 + (x2 - x1) // 4 + (y2 - y1) // 2) % 4
        ax, bx = (x1, x2) if o in (0, 1) else (x2, x1)
        ay, by = (y1, y2) if o in (0, 2) else (y2, y1)
        return f'<line id="{id_}" x1="{q(ax)}" y1="{q(ay)}" x2="{q(bx)}" y2="{q(by)}"/>'
    if kind == "g":
        return (f'<g id="{id_}"><rect x="{q(x1)}" y="{q(y1)}" width="{q(w / 2)}" height="{q(h / 2)}"/>'
                f'<rect x="{q(x1 + w / 2)}" y="{q(y1 + h / 2)}" width="{q(w / 2)}" height="{q(h / 2)}"/></g>')
    if kind == "point":
        return f'<point id="{id_}" x="{q(x1)}" y="{q(y1)}"/>'
    raise ValueError(kind)


def size_attrs(kind, w, h, rnd):
    """attribute text giving a shape its size (several equivalent spellings)"""
    if kind == "circle":
        return rnd.choice([f'r="{q(w / 2)}"', f'wh="{q(w)}"', f'width="{q(w)}" height="{q(w)}"'])
    if kind == "ellipse":
        return rnd.choice([f'rx="{q(w / 2)}" ry="{q(h / 2)}"', f'wh="{q(w)} {q(h)}"', f'rxy="{q(w / 2)} {q(h / 2)}"',
                           f'width="{q(w)}" height="{q(h)}"'])
    return rnd.choice([f'wh="{q(w)} {q(h)}"', f'width="{q(w)}" height="{q(h)}"', f'wh="{q(w)}, {q(h)}"'])


NATIVE = {"rect": ("x", "y", "width", "height"), "circle": ("cx", "cy", "r"), "ellipse": ("cx", "cy", "rx", "ry"),
          "line": ("x1", "y1", "x2", "y2"), "box": ("x", "y", "width", "height")}
FOREIGN = {"xy", "cxy", "xy1", "xy2", "wh", "rxy", "dxy", "dwh", "dx", "dy", "dw", "dh", "xy-loc", "surround", "inside",
           "margin", "start", "end", "edge-type", "corner-offset"}
GEOM_ATTRS = {"x", "y", "x1", "y1", "x2", "y2", "cx", "cy", "r", "rx", "ry", "width", "height"}


def el_bbox(el):
    """Bounding box (user units) of an output element from its own attributes."""
    a = el.attrs
    n = el.name
    # a value that is not a number (e.g. an unsplit "1,2") means: no box
    if any(k in a and vlib.fnum(a[k]) is None for k in GEOM_ATTRS):
        return None
    f = lambda k, d=0.0: (vlib.fnum(a[k]) if k in a else d)
    if n in ("rect", "box", "image", "use"):
        if "width" not in a or "height" not in a:
            return None
        return (f("x"), f("y"), f("x") + f("width"), f("y") + f("height"))
    if n == "circle":
        if "r" not in a:
            return None
        return (f("cx") - f("r"), f("cy") - f("r"), f("cx") + f("r"), f("cy") + f("r"))
    if n == "ellipse":
        if "rx" not in a or "ry" not in a:
            return None
        return (f("cx") - f("rx"), f("cy") - f("ry"), f("cx") + f("rx"), f("cy") + f("ry"))
    if n == "line":
        return (min(f("x1"), f("x2")), min(f("y1"), f("y2")), max(f("x1"), f("x2")), max(f("y1"), f("y2")))
    return None


def box_close(actual, exp_q):
    if actual is None or any(v is None for v in actual):
        return False
    e = (exp_q["x1"] * UNIT, exp_q["y1"] * UNIT, exp_q["x2"] * UNIT, exp_q["y2"] * UNIT)
    return all(abs(a - b) <= TOL + 1e-5 * abs(b) for a, b in zip(actual, e))


def find_by_id(out, id_):
    root = vlib.parse_fragment(out)
    for el in vlib.elements(root):
        if el.attrs.get("id") == id_:
            return el
    return None


def residue(el):
    """attributes that must not survive on an output shape"""
    native = set(NATIVE.get(el.name, ()))
    bad = [k for k in el.attrs if k in FOREIGN or (k in GEOM_ATTRS and k not in native)]
    return bad


def run_and_compare(rep, cases, check, tag, sample_every=997):
    """cases: list of dict(k, xml, case, ...).  check(case_dict, resp) -> None | (sig, detail)"""
    res = vlib.run_cases([{"k": c["k"], "xml": c["xml"], "cfg": c.get("cfg", {})} for c in cases])
    for i, c in enumerate(cases):
        resp = res[c["k"]]
        rep.case(c.get("key", c["k"]))
        bad = None
        if resp["status"] in ("panic", "abort", "hang"):
            bad = ("crash:" + resp["status"], resp.get("err"))
        else:
            bad = check(c, resp)
        if bad:
            rep.violation(bad[0], {"case": c["case"], "xml": c["xml"], "cfg": c.get("cfg", {}), "status": resp["status"],
                                   "err": vlib.trunc(resp.get("err")), "out": vlib.trunc(strip_style(resp.get("out")), 2500),
                                   "detail": bad[1]})
        else:
            rep.traces += 1
        if i % sample_every == 0:
            rep.sample({"case": c["case"], "xml": c["xml"]})
    return res


def strip_style(out):
    if not out:
        return out
    import re
    return re.sub(r"<style>.*?</style>", "<style>...</style>", out, flags=re.S)
