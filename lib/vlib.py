"""Common machinery for the svgdx checks: TLC driver, runner driver, XML
projection (expat), evidence / findings / replay bookkeeping.

Python stdlib only.  Exit codes of a check: 0 held, 1 violation (with a
`VIOLATION property=<id> replay=<path>` line), 2 tool error / timeout.
"""
import base64
import fcntl
import hashlib
import json
import os
import random
import re
import shutil
import subprocess
import sys
import time
import xml.parsers.expat

VERIF = os.path.dirname(os.path.dirname(os.path.abspath(__file__)))
REPO = os.environ.get("VERIF_REPO", "/repo")
SPEC = os.path.join(VERIF, "spec")
# VERIF_HARNESS / VERIF_WORK / VERIF_EVID: used by bin/seedtest to run the checks
# against a scratch worktree without disturbing /repo, the harness build or
# the committed evidence (the registered checks never set them)
HARNESS = os.environ.get("VERIF_HARNESS", os.path.join(VERIF, "harness"))
WORK = os.environ.get("VERIF_WORK", os.path.join(VERIF, ".work"))
EVID = os.environ.get("VERIF_EVID", os.path.join(VERIF, "evidence"))
REPLAYS = os.path.join(EVID, "replays")
NCPU = os.cpu_count() or 4


class ToolError(Exception):
    """Something in the machinery (not the code under test) failed."""


def log(*a):
    print(*a, file=sys.stderr, flush=True)


def workdir(tag):
    d = os.path.join(WORK, f"{tag}-{os.getpid()}")
    os.makedirs(d, exist_ok=True)
    return d


# --------------------------------------------------------------------------
# building
# --------------------------------------------------------------------------
def _locked(path):
    os.makedirs(os.path.dirname(path), exist_ok=True)
    f = open(path, "w")
    fcntl.flock(f, fcntl.LOCK_EX)
    return f


def build_runner():
    """Build the runner against /repo's current working tree (hooks on)."""
    lock = _locked(os.path.join(WORK, "build.lock"))
    try:
        env = dict(os.environ, CARGO_NET_OFFLINE="true")
        p = subprocess.run(["cargo", "build", "--offline", "-q"], cwd=HARNESS, env=env,
                           stdout=subprocess.PIPE, stderr=subprocess.STDOUT, text=True)
        if p.returncode != 0:
            raise ToolError("runner build failed:\n" + p.stdout[-4000:])
    finally:
        lock.close()
    return os.path.join(HARNESS, "target", "debug", "svx-runner")


def build_bins():
    """Build svgdx / svgdx-server from /repo into a target dir under /verif."""
    lock = _locked(os.path.join(WORK, "buildbins.lock"))
    tdir = os.path.join(HARNESS, "target-repo")
    try:
        env = dict(os.environ, CARGO_NET_OFFLINE="true")
        p = subprocess.run(["cargo", "build", "--offline", "-q", "--bins", "--manifest-path",
                            os.path.join(REPO, "Cargo.toml"), "--target-dir", tdir], env=env,
                           stdout=subprocess.PIPE, stderr=subprocess.STDOUT, text=True)
        if p.returncode != 0:
            raise ToolError("svgdx bins build failed:\n" + p.stdout[-4000:])
    finally:
        lock.close()
    return os.path.join(tdir, "debug", "svgdx"), os.path.join(tdir, "debug", "svgdx-server")


# --------------------------------------------------------------------------
# TLC
# --------------------------------------------------------------------------
class TlcResult:
    def __init__(self):
        self.stdout = ""
        self.generated = 0
        self.distinct = 0
        self.replay = []
        self.exported = 0      # records exported by TLC (len(replay) unless a reservoir was asked for)
        self.violated = None   # name of violated invariant / property
        self.ok = False
        self.wall = 0.0
        self.depth = 0


def cfg_text(spec="Spec", constants=None, invariants=(), properties=(), view=None,
             postcondition=None, constraint=None, init=None, next_=None):
    lines = []
    if init:
        lines += [f"INIT {init}", f"NEXT {next_}"]
    else:
        lines.append(f"SPECIFICATION {spec}")
    if constants:
        lines.append("CONSTANTS")
        for k, v in constants.items():
            if isinstance(v, int) and not isinstance(v, bool) and v < 0:
                # the cfg grammar has no negative literals: Neg1 == -1 is defined in the MC module
                assert v == -1
                lines.append(f"  {k} <- Neg1")
            else:
                lines.append(f"  {k} = {tla_value(v)}")
    if view:
        lines.append(f"VIEW {view}")
    if constraint:
        lines.append(f"CONSTRAINT {constraint}")
    if invariants:
        lines.append("INVARIANTS " + " ".join(invariants))
    if properties:
        lines.append("PROPERTIES " + " ".join(properties))
    if postcondition:
        lines.append(f"POSTCONDITION {postcondition}")
    lines.append("CHECK_DEADLOCK FALSE")
    return "\n".join(lines) + "\n"


def tla_value(v):
    if isinstance(v, bool):
        return "TRUE" if v else "FALSE"
    if isinstance(v, int):
        return str(v)
    if isinstance(v, str):
        return json.dumps(v)
    if isinstance(v, (set, frozenset)):
        return "{" + ", ".join(tla_value(x) for x in sorted(v, key=str)) + "}"
    if isinstance(v, (list, tuple)):
        return "<<" + ", ".join(tla_value(x) for x in v) + ">>"
    raise ValueError(v)


_replay_re = re.compile(r'^<<"REPLAY", "(.*)">>$')


def run_tlc(module, cfg, tag, workers=8, timeout=900, simulate=None, depth=None, seed=None,
            env=None, xmx="6g", dfs=False, keep_stdout=True, max_replay=None, on_replay=None):
    """Run TLC on spec/<module>.tla with the given cfg text.  TLC's output is read as a stream:
    exported records (REPLAY lines) are decoded one by one, handed to `on_replay` (statistics
    over ALL of them) and kept - all of them, or a uniform reservoir sample of `max_replay`."""
    wd = workdir("tlc-" + tag)
    cfgp = os.path.join(wd, f"{tag}.cfg")
    with open(cfgp, "w") as f:
        f.write(cfg)
    meta = os.path.join(wd, "meta")
    cmd = ["timeout", str(timeout), "java", "-XX:+UseParallelGC", f"-Xmx{xmx}", "-Xss512m"]
    if dfs:
        cmd.append("-Dtlc2.tool.queue.IStateQueue=StateDeque")
    cmd += ["-cp", "/opt/veriftools/tla/tla2tools.jar:/opt/veriftools/tla/CommunityModules-deps.jar",
            "tlc2.TLC", "-workers", str(workers), "-metadir", meta, "-cleanup",
            "-noGenerateSpecTE", "-config", cfgp]
    if simulate:
        cmd += ["-simulate", f"num={simulate}"]
        if depth:
            cmd += ["-depth", str(depth)]
    if seed is not None:
        cmd += ["-seed", str(seed)]
    cmd.append(module + ".tla")
    e = dict(os.environ)
    if env:
        e.update(env)
    t0 = time.time()
    p = subprocess.Popen(cmd, cwd=SPEC, env=e, stdout=subprocess.PIPE, stderr=subprocess.STDOUT, text=True,
                         errors="replace")
    r = TlcResult()
    other = []          # everything that is not an exported record (bounded)
    other_chars = 0
    seen = 0
    res_rnd = random.Random(0)
    for line in p.stdout:
        line = line.rstrip("\n")
        m = _replay_re.match(line)
        if m:
            try:
                rec = json.loads(json.loads('"' + m.group(1) + '"'))
            except Exception as ex:  # pragma: no cover
                p.kill()
                raise ToolError(f"cannot decode REPLAY line: {ex}: {line[:200]}")
            seen += 1
            if on_replay is not None:
                on_replay(rec)
            if max_replay is None or len(r.replay) < max_replay:
                r.replay.append(rec)
            else:
                j = res_rnd.randrange(seen)
                if j < max_replay:
                    r.replay[j] = rec
            continue
        other.append(line)
        other_chars += len(line) + 1
        while other_chars > 8_000_000 and len(other) > 1000:
            other_chars -= len(other[0]) + 1
            other.pop(0)
    p.wait()
    r.exported = seen
    r.wall = time.time() - t0
    out = "\n".join(other)
    r.stdout = out if keep_stdout else out[-20000:]
    for line in other:
        m = re.search(r"(\d[\d,]*) states generated, (\d[\d,]*) distinct states found", line)
        if m:
            r.generated = int(m.group(1).replace(",", ""))
            r.distinct = int(m.group(2).replace(",", ""))
        m = re.search(r"The depth of the complete state graph search is (\d+)", line)
        if m:
            r.depth = int(m.group(1))
        m = re.search(r"Error: Invariant (\S+) is violated", line)
        if m:
            r.violated = m.group(1)
        m = re.search(r"Error: Action property (\S+) is violated", line)
        if m:
            r.violated = m.group(1)
        if "Temporal properties were violated" in line:
            r.violated = r.violated or "temporal"
        if "Error: The postcondition" in line or "Postcondition" in line and "violated" in line:
            r.violated = r.violated or "postcondition"
    shutil.rmtree(wd, ignore_errors=True)
    if p.returncode == 124:
        raise ToolError(f"TLC timed out after {timeout}s on {module}/{tag}")
    finished = ("Model checking completed. No error has been found." in out) or \
               (simulate and "Finished in" in out and "Error:" not in out) or \
               (simulate and p.returncode == 0)
    r.ok = bool(finished) and r.violated is None
    if not r.ok and r.violated is None:
        errs = [l for l in out.splitlines() if "Error" in l or "error" in l][:10]
        raise ToolError(f"TLC failed on {module}/{tag} (rc={p.returncode}):\n" + "\n".join(errs) + "\n" + out[-3000:])
    return r


# --------------------------------------------------------------------------
# runner driver
# --------------------------------------------------------------------------
def _run_chunk(binary, cases, timeout_ms, mem_mb):
    """Run cases in one runner process; restart after a crash.  Returns
    {k: response}."""
    results = {}
    todo = list(cases)
    while todo:
        inp = "".join(json.dumps(c) + "\n" for c in todo)

        def limits():
            import resource
            resource.setrlimit(resource.RLIMIT_AS, (mem_mb << 20, mem_mb << 20))
            resource.setrlimit(resource.RLIMIT_CORE, (0, 0))

        p = subprocess.Popen([binary, "--timeout-ms", str(timeout_ms)], stdin=subprocess.PIPE,
                             stdout=subprocess.PIPE, stderr=subprocess.PIPE, preexec_fn=limits)
        try:
            # (every case has the runner's own watchdog; this outer limit only guards against a
            # wedged worker - capped, since poll() cannot wait longer than 2^31 ms)
            out, err = p.communicate(inp.encode(), timeout=min(8 * 3600, max(60, len(todo) * timeout_ms / 1000 + 30)))
        except subprocess.TimeoutExpired:
            p.kill()
            out, err = p.communicate()
        got = []
        for line in out.decode("utf-8", "replace").splitlines():
            try:
                got.append(json.loads(line))
            except Exception:
                pass
        for g in got:
            results[g.get("k")] = g
        done = len(got)
        if done >= len(todo):
            break
        # the process died (abort / stack overflow / OOM) or was killed while
        # running case todo[done]
        last = got[-1] if got else None
        if last is not None and last.get("status") == "hang":
            # hang response was emitted for todo[done-1]... the hang line counts
            # as that case's response; continue after it
            todo = todo[done:]
            continue
        culprit = todo[done]
        results[culprit["k"]] = {"k": culprit["k"], "status": "abort", "rc": p.returncode,
                                 "err": err.decode("utf-8", "replace")[-300:]}
        todo = todo[done + 1:]
    return results


def run_cases(cases, timeout_ms=20000, procs=None, mem_mb=4096, binary=None):
    """Execute runner requests (dicts with unique 'k'); returns {k: response}."""
    from concurrent.futures import ThreadPoolExecutor
    if not cases:
        return {}
    binary = binary or build_runner()
    procs = procs or min(NCPU, 12)
    procs = max(1, min(procs, (len(cases) + 19) // 20))
    chunks = [cases[i::procs] for i in range(procs)]
    res = {}
    with ThreadPoolExecutor(max_workers=procs) as ex:
        for r in ex.map(lambda ch: _run_chunk(binary, ch, timeout_ms, mem_mb), chunks):
            res.update(r)
    missing = [c["k"] for c in cases if c["k"] not in res]
    if missing:
        raise ToolError(f"runner returned no response for {len(missing)} cases, e.g. {missing[:3]}")
    for k, r in res.items():
        if r.get("status") == "toolerr":
            raise ToolError(f"runner tool error for {k}: {r.get('err')}")
    return res


def run_isolated(cases, timeout_ms=60000, mem_mb=4096, binary=None, workers=12):
    """Every case in a fresh process of its own (no history at all)."""
    from concurrent.futures import ThreadPoolExecutor
    binary = binary or build_runner()
    res = {}
    with ThreadPoolExecutor(max_workers=workers) as ex:
        for r in ex.map(lambda c: _run_chunk(binary, [c], timeout_ms, mem_mb), cases):
            res.update(r)
    return res


def b64(b):
    return base64.b64encode(b).decode()


# --------------------------------------------------------------------------
# XML projection with an independent parser (expat)
# --------------------------------------------------------------------------
class XNode:
    __slots__ = ("name", "attrs", "children", "text", "kind", "parent")

    def __init__(self, kind, name=None, attrs=None, text=None):
        self.kind = kind      # "el" | "text" | "comment" | "cdata" | "pi" | "doctype"
        self.name = name
        self.attrs = attrs or {}
        self.children = []
        self.text = text
        self.parent = None

    def iter(self):
        yield self
        for c in self.children:
            if c.kind == "el":
                yield from c.iter()

    def classes(self):
        return self.attrs.get("class", "").split()

    def text_content(self):
        out = []
        for c in self.children:
            if c.kind in ("text", "cdata"):
                out.append(c.text)
            elif c.kind == "el":
                out.append(c.text_content())
        return "".join(out)


class XmlError(Exception):
    pass


def parse_xml(data, keep_ws=True):
    """Parse bytes/str with expat into a tree rooted at a pseudo node.
    Raises XmlError if not well-formed (incl. duplicate attributes, several
    roots)."""
    if isinstance(data, str):
        data = data.encode("utf-8")
    root = XNode("doc")
    stack = [root]
    p = xml.parsers.expat.ParserCreate(namespace_separator=None)
    p.ordered_attributes = True
    p.buffer_text = True
    in_cdata = [False]

    def add(n):
        n.parent = stack[-1]
        stack[-1].children.append(n)

    def start(name, attrs):
        d = {}
        for i in range(0, len(attrs), 2):
            d[attrs[i]] = attrs[i + 1]
        n = XNode("el", name, d)
        add(n)
        stack.append(n)

    def end(name):
        stack.pop()

    def chars(t):
        if in_cdata[0]:
            add(XNode("cdata", text=t))
        else:
            last = stack[-1].children[-1] if stack[-1].children else None
            if last is not None and last.kind == "text":
                last.text += t
            else:
                add(XNode("text", text=t))

    def comment(t):
        add(XNode("comment", text=t))

    def pi(target, data_):
        add(XNode("pi", name=target, text=data_))

    def start_cdata():
        in_cdata[0] = True

    def end_cdata():
        in_cdata[0] = False

    def doctype(name, sysid, pubid, has_internal):
        add(XNode("doctype", name=name, text=f"{sysid}|{pubid}|{has_internal}"))

    p.StartElementHandler = start
    p.EndElementHandler = end
    p.CharacterDataHandler = chars
    p.CommentHandler = comment
    p.ProcessingInstructionHandler = pi
    p.StartCdataSectionHandler = start_cdata
    p.EndCdataSectionHandler = end_cdata
    p.StartDoctypeDeclHandler = doctype
    try:
        p.Parse(data, True)
    except xml.parsers.expat.ExpatError as e:
        raise XmlError(str(e))
    return root


def parse_fragment(data):
    """Parse a possibly multi-rooted fragment by wrapping it."""
    if isinstance(data, str):
        data = data.encode("utf-8")
    return parse_xml(b"<verif-wrapper>" + data + b"</verif-wrapper>").children[0]


def elements(root):
    for c in root.children:
        if c.kind == "el":
            yield from c.iter()


def fnum(s):
    try:
        return float(s)
    except Exception:
        return None


# --------------------------------------------------------------------------
# findings, replays, evidence
# --------------------------------------------------------------------------
def load_findings():
    p = os.path.join(VERIF, "known_findings.json")
    if not os.path.exists(p):
        return {"findings": [], "fixed": []}
    with open(p) as f:
        return json.load(f)


class Report:
    """Collects what one check run explored and found."""

    def __init__(self, prop, tier, seed, level="model_checking"):
        self.prop = prop
        self.tier = tier
        self.seed = seed
        self.level = level
        self.t0 = time.time()
        self.violations = []       # (signature, replay dict)
        self.known = {}            # signature -> count
        self.states = 0
        self.transitions = 0
        self.traces = 0            # behaviours replayed / traces validated against the implementation
        self.evaluations = 0
        self.nontrivial = set()
        self.samples = []
        self.notes = {}
        self.assumptions = []
        self.bounds = {}
        findings = load_findings()
        self.listed = {f["signature"]: f for f in findings.get("findings", []) if f.get("property") == prop}

    def add_tlc(self, r, what):
        self.states += r.distinct
        self.transitions += r.generated
        self.notes.setdefault("tlc_runs", []).append(
            {"what": what, "distinct": r.distinct, "generated": r.generated, "depth": r.depth,
             "wall_s": round(r.wall, 1), "exported": r.exported or len(r.replay)})

    def sample(self, s, limit=6):
        if len(self.samples) < limit:
            self.samples.append(s)

    def case(self, key=None, nontrivial=True):
        self.evaluations += 1
        if nontrivial and key is not None:
            self.nontrivial.add(key if isinstance(key, (str, int)) else hashlib.sha1(
                json.dumps(key, sort_keys=True).encode()).hexdigest())

    def violation(self, signature, replay):
        """Record a failed expectation.  `signature` identifies the finding
        semantically (which deviation of the specification explains it, on
        what class of input); listed signatures are known findings."""
        if signature in self.listed:
            self.known[signature] = self.known.get(signature, 0) + 1
            return
        self.violations.append((signature, replay))

    def finish(self):
        os.makedirs(EVID, exist_ok=True)
        rdir = os.path.join(REPLAYS, self.prop)
        shutil.rmtree(rdir, ignore_errors=True)
        for sig, n in sorted(self.known.items()):
            print(f"KNOWN-FINDING: property={self.prop} {sig} ({self.listed[sig].get('what', '')}; {n} cases)")
        seen = {}
        for sig, rep in self.violations:
            seen.setdefault(sig, []).append(rep)
        nviol = 0
        for sig, reps in seen.items():
            os.makedirs(rdir, exist_ok=True)
            for j, rep in enumerate(reps[:3]):
                nviol += 1
                name = re.sub(r"[^A-Za-z0-9_.-]+", "_", sig)[:80]
                path = os.path.join(rdir, f"{name}-{j}.json")
                with open(path, "w") as f:
                    json.dump({"property": self.prop, "signature": sig, "total_with_signature": len(reps),
                               "replay": rep}, f, indent=1, default=str)
                print(f"VIOLATION property={self.prop} replay={path}")
        ev = {
            "property_id": self.prop,
            "tier": self.tier,
            "seed": self.seed,
            "level": self.level,
            "coverage": {
                "states": max(self.states, 0),
                "transitions": max(self.transitions, 0),
                "traces_validated_against_impl": self.traces,
                "evaluations": self.evaluations,
                "distinct_nontrivial": len(self.nontrivial),
                "rule": self.notes.pop("rule", ""),
                "samples": self.samples or ["(none)"],
                "exhaustive": bool(self.notes.pop("exhaustive", False)),
                "bounds": self.bounds,
                **self.notes,
            },
            "assumptions": self.assumptions,
            "wall_s": round(time.time() - self.t0, 2),
            "violations": len(self.violations),
            "known_findings": self.known,
        }
        with open(os.path.join(EVID, f"{self.prop}.json"), "w") as f:
            json.dump(ev, f, indent=1, default=str)
        return 1 if self.violations else 0


def trunc(s, n=600):
    if s is None:
        return None
    return s if len(s) <= n else s[:n] + f"...[{len(s)} chars]"


# --------------------------------------------------------------------------
# trace validation (implementation -> specification)
# --------------------------------------------------------------------------
def validate_traces(traces, tag, module="TraceStruct", spec="TraceSpec", accepted="Accepted",
                    invariants=("DepthNonNeg", "DepthIsOpen"), max_events=60000, timeout=600,
                    max_rejections=4):
    """Validate recorded traces (list of (key, [event dicts])) against a trace
    specification with TLC.  Returns (n_validated, n_events, rejected) where
    rejected is a list of (key, matched_events, offending_event_json)."""
    rejected = []
    nval = 0
    nev = 0
    pending = [(k, t) for k, t in traces if t]
    while pending:
        batch = []
        total = 0
        while pending and (not batch or total + len(pending[0][1]) <= max_events):
            k, t = pending.pop(0)
            batch.append((k, t))
            total += len(t)
        # run this batch; on rejection drop the offending trace and continue
        while batch:
            wd = workdir("trace-" + tag)
            path = os.path.join(wd, "trace.ndjson")
            starts = []
            n = 0
            with open(path, "w") as f:
                for k, t in batch:
                    starts.append(n)
                    for ev in t:
                        f.write(json.dumps(ev) + "\n")
                    n += len(t)
            cfg = f"SPECIFICATION {spec}\nCONSTRAINT Progress\n"
            if invariants:
                cfg += "INVARIANTS " + " ".join(invariants) + "\n"
            cfg += f"POSTCONDITION {accepted}\nCHECK_DEADLOCK FALSE\n"
            cfgp = os.path.join(wd, "trace.cfg")
            with open(cfgp, "w") as f:
                f.write(cfg)
            cmd = ["timeout", str(timeout), "java", "-XX:+UseParallelGC", "-Xmx3g", "-Xss1g",
                   "-Dtlc2.tool.queue.IStateQueue=StateDeque",
                   "-cp", "/opt/veriftools/tla/tla2tools.jar:/opt/veriftools/tla/CommunityModules-deps.jar",
                   "tlc2.TLC", "-workers", "1", "-metadir", os.path.join(wd, "meta"), "-cleanup",
                   "-noGenerateSpecTE", "-config", cfgp, module + ".tla"]
            p = subprocess.run(cmd, cwd=SPEC, env=dict(os.environ, TRACE=path), stdout=subprocess.PIPE,
                               stderr=subprocess.STDOUT, text=True, errors="replace")
            out = p.stdout
            shutil.rmtree(wd, ignore_errors=True)
            if p.returncode == 124:
                raise ToolError("trace validation timed out")
            m = re.search(r'"TRACE-REJECTED", "matched", (\d+), "of", (\d+), (.*)>>', out)
            inv = re.search(r"Error: Invariant (\S+) is violated", out)
            if m is None and inv is None:
                if "Model checking completed. No error has been found." not in out:
                    raise ToolError("trace validation failed to run:\n" + out[-3000:])
                nval += len(batch)
                nev += n
                break
            if m is not None:
                matched = int(m.group(1))
                what = m.group(3)
            else:
                # an invariant failed at some state; locate by the l value in the printed state
                ls = re.findall(r"/\\ l = (\d+)", out)
                matched = (int(ls[-1]) - 1) if ls else 0
                what = "invariant " + inv.group(1)
            # which trace holds event index `matched` (0-based)?
            j = max(i for i, s in enumerate(starts) if s <= min(matched, n - 1))
            k, t = batch[j]
            rejected.append((k, matched - starts[j], what))
            if len(rejected) >= max_rejections:
                return nval + j, nev + starts[j], rejected
            nval += j
            nev += starts[j]
            batch = batch[j + 1:]
    return nval, nev, rejected


# --------------------------------------------------------------------------
# traces of inputs the repository itself provides
# --------------------------------------------------------------------------
def example_traces():
    """Traces of examples/*.xml run through the library (hooks on)."""
    import glob
    cases = [{"k": "example:" + os.path.basename(f), "xml": open(f, encoding="utf-8").read(), "cfg": {}, "trace": True, "trace_cap": 60000}
             for f in sorted(glob.glob(os.path.join(REPO, "examples", "*.xml")))]
    res = run_cases(cases)
    return [(c["k"], res[c["k"]]["trace"]) for c in cases if res[c["k"]].get("trace")], res


def suite_traces(max_traces=4000):
    """Run the repository's own test suite once with the hooks compiled in and
    SVGDX_VERIF_TRACE_DIR set: every transform the suite performs (library calls and
    the svgdx binary it spawns) leaves a trace file.  Returns [(name, [events])]."""
    wd = workdir("suite")
    tdir = os.path.join(wd, "traces")
    os.makedirs(tdir, exist_ok=True)
    env = dict(os.environ, CARGO_NET_OFFLINE="true", SVGDX_VERIF_TRACE_DIR=tdir)
    lock = _locked(os.path.join(WORK, "buildsuite.lock"))
    try:
        p = subprocess.run(["cargo", "test", "--offline", "-q", "--features", "verif", "--manifest-path", os.path.join(REPO, "Cargo.toml"),
                            "--target-dir", os.path.join(HARNESS, "target-tests")], env=env, stdout=subprocess.PIPE,
                           stderr=subprocess.STDOUT, text=True)
    finally:
        lock.close()
    if p.returncode != 0 and "test result" not in p.stdout:
        shutil.rmtree(wd, ignore_errors=True)
        raise ToolError("could not run the repository suite with hooks on:\n" + p.stdout[-2000:])
    out = []
    for name in sorted(os.listdir(tdir))[:max_traces]:
        evs = []
        with open(os.path.join(tdir, name)) as f:
            for line in f:
                try:
                    evs.append(json.loads(line))
                except Exception:
                    pass
        if evs:
            out.append(("suite:" + name, evs))
    shutil.rmtree(wd, ignore_errors=True)
    return out, p.stdout[-600:]


def validate_named_traces(rep, traces, tag, what, budget=60000):
    """Validate traces against TraceStruct and record rejections as violations."""
    sel, tot = [], 0
    for k, t in traces:
        if tot + len(t) <= budget:
            sel.append((k, t))
            tot += len(t)
    nval, nev, rejected = validate_traces(sel, tag)
    rep.traces += nval
    rep.notes[f"{what}_traces_validated"] = nval
    rep.notes[f"{what}_trace_events"] = nev
    for k, matched, ev in rejected:
        try:
            evd = json.loads(json.loads(ev)) if ev.startswith('"') else ev
        except Exception:
            evd = ev
        kind = evd.get("e", "?") if isinstance(evd, dict) else "?"
        rep.violation(f"trace-rejected:{what}:{kind}", {"source": k, "matched_events": matched, "offending_event": evd,
                                                       "meaning": "the recorded execution is not a behaviour of TraceStruct.tla"})
    return nval
