"""C20 Auto-styles are self-consistent, minimal and leave author styles alone.

Model: spec/Styles.tla: for every set of reserved classes (reduced
vocabulary, all subsets up to a size) x element kinds x on/off x root/fragment
x local styles, the design function Rules / Defs with the invariants Minimal,
Complete, Closed, NothingWhenOff.  Replay: (a) the reduced-vocabulary cases:
the rule set and definition set of the real output equal the prediction;
(b) the full vocabulary of the styles reference (147 colour keywords x 4
prefixes, text, stroke, arrow, dash/flow, patterns with numeric suffixes,
shadows) - every single class and pairs across families x 6 themes x
settings - judged by the same predicates evaluated generically on the output;
author <style>/<defs> must survive intact."""
import json
import random

import stylesc
import textc
import vlib

THEMES = ["default", "bold", "fine", "glass", "light", "dark"]
INV = ["Minimal", "Complete", "Closed", "NothingWhenOff", "PermIndependent"]


def predicates(st, vocab, expect_injected, author):
    """generic C20 predicates on a parsed output; returns None or (sig, detail)"""
    if not expect_injected:
        if st.injected():
            return ("styles:injected-when-off", "auto-styles present although disabled / fragment")
        return None
    reserved_rules = {k for k in st.rule_classes}
    extra = sorted(k for k in reserved_rules if k not in st.used)
    if extra:
        return ("styles:not-minimal", f"rules emitted for classes no element uses: {extra}")
    missing = []
    for k in sorted(st.used):
        fam = vocab.get(k)
        if fam is None:
            continue
        if fam == "text" and "text" not in st.elems:
            continue
        if k not in reserved_rules:
            missing.append(k)
    if missing:
        return ("styles:not-complete", f"used reserved classes without a rule: {missing}")
    for u in set(st.urls):
        n = st.def_ids.count(u)
        if n != 1:
            return ("styles:not-closed", f"url(#{u}) is referenced but defined {n} times (definitions: {st.def_ids})")
    unused_defs = [d for d in st.def_ids if d not in st.urls and d != "lg"]
    if unused_defs:
        return ("styles:unused-definition", f"definitions nothing refers to: {unused_defs}")
    if author:
        if ".mine { fill: red; } /* author */" not in st.css:
            return ("styles:author-style-lost", "author <style> content changed")
        if "lg" not in st.def_ids:
            return ("styles:author-defs-lost", "author <defs> content changed")
    return None


def run(rep, tier, seed):
    rnd = random.Random(seed)
    big = tier == "thorough"
    vocab = stylesc.full_vocabulary()
    rep.assumptions += ["the vocabulary is taken from the styles reference and the SVG colour keyword list",
                        "text-family classes are only used on shapes that carry text (the reference's precondition)"]
    fam = "full" if big else "small"
    cfg = vlib.cfg_text(constants={"Family": fam, "Deviations": set()}, invariants=INV + ["Export"])
    r = vlib.run_tlc("MC_Styles", cfg, "styles-" + fam, workers=8, timeout=2400, keep_stdout=True, max_replay=(120000 if big else None))
    if not r.ok:
        raise vlib.ToolError(f"Styles.tla: {r.violated}: specification error")
    rep.add_tlc(r, f"Styles.tla ({fam}): Minimal, Complete, Closed, NothingWhenOff, PermIndependent")
    rn = vlib.run_tlc("MC_Styles", vlib.cfg_text(constants={"Family": "small", "Deviations": {"HashOrderLeaks"}},
                                                 invariants=["PermIndependent"]), "styles-neg", workers=4, timeout=600, keep_stdout=False)
    rep.notes["negative_control"] = {"deviation": "HashOrderLeaks", "violated": rn.violated}
    if rn.violated != "PermIndependent":
        raise vlib.ToolError("negative control HashOrderLeaks did not violate PermIndependent")
    recs = r.replay
    limit = 20000 if big else 5000
    if len(recs) > limit:
        recs = rnd.sample(recs, limit)
    cases = []
    VOC = {"d-red", "d-fill-darkblue", "d-text-none", "d-text-ol-red", "d-none", "d-text-bold", "d-text-large", "d-text-ol-thick",
           "d-thin", "d-arrow", "d-biarrow", "d-dash", "d-dot", "d-dot-dash", "d-flow", "d-flow-fast", "d-flow-slower", "d-flow-rev", "d-grid", "d-grid-5", "d-grid-05", "d-hatch-10", "d-stipple-2",
           "d-softshadow", "d-hardshadow", "d-surround"}
    for j, c in enumerate(recs):
        with_text = "text" in c["elems"]
        used = list(c["used"])
        if not with_text and any(k in ("d-text-bold", "d-text-large", "d-text-ol-thick") for k in used):
            pass   # text classes on a shape without text: no text element, no rule expected
        xml = stylesc.document(used, with_text, root=c["root"], place=c.get("place", "shape"), form=c.get("form"))
        cfg = {"add_auto_styles": c["on"], "theme": THEMES[j % 6]}
        if j % 3 == 0:
            cfg["background"] = "lightgrey"     # a setting that only matters when styles are injected
        if j % 5 == 0:
            cfg["font_family"] = "serif"
        if c["local"]:
            cfg["use_local_styles"] = True
        cases.append({"k": f"c20-{j}", "xml": xml, "cfg": cfg, "case": c, "mode": "reduced"})
    # full vocabulary: singles and cross-family pairs
    names = sorted(vocab)
    singles = names if big else rnd.sample(names, 260) + [k for k in names if vocab[k] != "colour"]
    for j, k in enumerate(singles):
        cfg = {"theme": THEMES[j % 6]}
        if j % 7 == 0:
            cfg["background"] = "lightgrey"
        if j % 11 == 0:
            cfg["use_local_styles"] = True
        cases.append({"k": f"c20s-{j}", "xml": stylesc.document([k], True, author=(j % 5 == 0)), "cfg": cfg,
                      "case": {"used": [k]}, "mode": "full", "author": j % 5 == 0})
    fams = {}
    for k, f in vocab.items():
        fams.setdefault(f, []).append(k)
    npairs = 6000 if big else 800
    for j in range(npairs):
        f1, f2 = rnd.sample(sorted(fams), 2)
        ks = [rnd.choice(fams[f1]), rnd.choice(fams[f2])]
        if rnd.random() < 0.3:
            ks.append(rnd.choice(fams["pattern"]))
        if rnd.random() < 0.3:
            ks.append(rnd.choice(names))
        if j % 6 == 1:
            # the same spacing spelled twice: two classes, two definitions, each url defined once
            b = rnd.choice(stylesc.PATTERN_BASES)
            ks += [f"{b}-5", f"{b}-05"]
        cases.append({"k": f"c20p-{j}", "xml": stylesc.document(ks, True, author=(j % 4 == 0), place=("tspan" if j % 3 == 2 else "shape")),
                      "cfg": {"theme": THEMES[j % 6]},
                      "case": {"used": ks}, "mode": "full", "author": j % 4 == 0})
    res = vlib.run_cases([{"k": c["k"], "xml": c["xml"], "cfg": c["cfg"]} for c in cases])
    for i, c in enumerate(cases):
        rr = res[c["k"]]
        cs = c["case"]
        rep.case(c["xml"] + json.dumps(c["cfg"], sort_keys=True))
        if rr["status"] != "ok":
            rep.violation(f"styles:{rr['status']}", {"xml": c["xml"], "cfg": c["cfg"], "err": vlib.trunc(rr.get("err"))})
            continue
        try:
            st = stylesc.Styled(rr["out"])
        except vlib.XmlError as e:
            rep.violation("styles:not-wellformed", {"xml": c["xml"], "cfg": c["cfg"], "detail": str(e)})
            continue
        bad = None
        if c["mode"] == "reduced":
            expect_inj = cs["on"] and cs["root"]
            bad = predicates(st, vocab, expect_inj, False)
            if bad is None and expect_inj:
                got_rules = st.rule_classes & VOC
                # d-text and alignment classes are added by text generation itself; compare within the reduced vocabulary
                if got_rules != set(cs["rules"]):
                    bad = ("styles:rule-set", f"rules for {sorted(got_rules)}, specification says {sorted(cs['rules'])}")
                elif set(st.def_ids) != set(cs["defs"]):
                    bad = ("styles:def-set", f"definitions {sorted(st.def_ids)}, specification says {sorted(cs['defs'])}")
        else:
            bad = predicates(st, vocab, True, c.get("author", False))
        if bad:
            rep.violation(bad[0], {"case": cs, "xml": c["xml"], "cfg": c["cfg"], "detail": bad[1], "css": vlib.trunc(st.css, 2500),
                                   "definitions": st.def_ids})
        else:
            rep.traces += 1
        if i % 1999 == 0:
            rep.sample({"xml": c["xml"], "cfg": c["cfg"], "rules_for": sorted(st.rule_classes), "definitions": st.def_ids})
    rep.notes["rule"] = ("Styles.tla cases (class subsets x elements x settings) + full vocabulary singles and cross-family pairs x themes; "
                         "distinct = distinct (document, configuration)")
    rep.notes["exhaustive"] = False
    rep.bounds["vocabulary"] = {"full": len(vocab), "reduced": len(VOC)}


def replay(path):
    with open(path) as f:
        r = json.load(f)["replay"]
    res = vlib.run_cases([{"k": "replay", "xml": r["xml"], "cfg": r.get("cfg", {})}])
    print(json.dumps(res["replay"], indent=1)[:5000])
    return 0
