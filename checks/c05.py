"""C05 Output is a fixed point: re-processing svgdx output changes nothing.

Model: spec/Text.tla invariant Idempotent (writing the decoded form of a
written payload reproduces it, for every source and string) - with the
deviation DoubleEscape TLC shows the failure.  Replay (history of two
transforms): for every svg-rooted document of the generated corpus (all value
sources x strings of Text.tla, geometry documents of Geom.tla, programs of
Interp.tla, the repository's examples) that transforms successfully under a
configuration c1, the output is fed back under further configurations c2 and
must come back byte for byte."""
import glob
import json
import os
import random

import geom
import interp
import textc
import vlib
from checks.c02 import text_family, root_document


def run(rep, tier, seed):
    rnd = random.Random(seed)
    big = tier == "thorough"
    rep.assumptions += ["the corpus is generated from the TLA+ families of the other checks plus examples/*.xml"]
    maxlen = 3 if big else 2
    recs = text_family(rep, "wf", ["WellFormed", "Idempotent"], maxlen)
    r = text_family(rep, "wf", ["Idempotent"], 2, deviations=("DoubleEscape",))
    rep.notes["negative_control"] = {"deviation": "DoubleEscape", "violated": r.violated}
    if r.violated != "Idempotent":
        raise vlib.ToolError("negative control DoubleEscape did not violate Idempotent")
    docs = []
    for j, c in enumerate(recs):
        d = textc.wf_document(c, rnd)
        if d is None:
            continue
        xml, cfg0 = d
        cfg = dict(textc.CONFIGS[j % len(textc.CONFIGS)])
        cfg.update(cfg0)
        docs.append((f"wf:{c['src']}", xml, cfg))
    # document shapes: prologs, kinds of children, root attributes
    roots = text_family(rep, "root", [], 0)
    if not big and len(roots) > 1500:
        roots = rnd.sample(roots, 1500)
    for j, c in enumerate(roots):
        docs.append(("root:" + c["rootattrs"], root_document(c), dict(textc.CONFIGS[j % len(textc.CONFIGS)])))
    # roots declaring a default namespace that is not exactly the SVG one
    for j, ns in enumerate(["https://www.w3.org/2000/svg", "http://www.w3.org/2000/svg/", "urn:other"]):
        docs.append(("root:foreign-xmlns", f'<svg xmlns="{ns}"><rect wh="2" xy="1 1" text="t"/></svg>', dict(textc.CONFIGS[j])))
        docs.append(("root:foreign-xmlns", f'<svg xmlns="{ns}" xmlns:xlink="http://www.w3.org/1999/xlink" width="9"><g><rect wh="2" class="d-fill-red"/></g></svg>',
                     dict(textc.CONFIGS[j + 3])))
    # programs of the Interp families (loops, reuse, scopes)
    for fam in ("loop", "reuse", "scope"):
        rr = vlib.run_tlc("MC_Interp", interp.mc_cfg(fam, export=True, MaxNodes=2 if fam == "loop" else 3), f"c05-{fam}", workers=8, timeout=600)
        rep.add_tlc(rr, f"Interp.tla family {fam} (corpus)")
        pick = rnd.sample(rr.replay, min(len(rr.replay), 3000 if big else 500))
        for x in pick:
            if x["res"] == "ok":
                c = interp.Conc(x, random.Random(rnd.random()), wrap=True, indent=rnd.random() < 0.5)
                docs.append((f"interp:{fam}", c.xml(), {"depth_limit": 100}))
    # geometry documents with generated text
    for f in sorted(glob.glob(os.path.join(vlib.REPO, "examples", "*.xml"))):
        docs.append(("example:" + os.path.basename(f), open(f, encoding="utf-8").read(), {}))
    cases = []
    for j, (src, xml, cfg) in enumerate(docs):
        again = [dict(textc.CONFIGS[(j + 1) % len(textc.CONFIGS)]), dict(textc.CONFIGS[(j + 4) % len(textc.CONFIGS)])]
        if src.startswith("example") and "<config" in xml:
            pass
        cases.append({"k": f"c05-{j}", "xml": xml, "cfg": cfg, "again": again, "src": src})
    res = vlib.run_cases([{k: v for k, v in c.items() if k != "src"} for c in cases])
    n_ok = 0
    for i, c in enumerate(cases):
        r = res[c["k"]]
        rep.case(c["xml"] + json.dumps(c["cfg"], sort_keys=True))
        if r["status"] != "ok":
            continue
        if not r["out"].lstrip().startswith("<svg") and "<svg" not in r["out"][:200]:
            continue
        n_ok += 1
        src = c["src"].split(":")[0] + ":" + c["src"].split(":")[1] if c["src"].startswith("wf") else c["src"].split(":")[0]
        bad = None
        for a, c2 in zip(r.get("again", []), c["again"]):
            if a["status"] != "ok":
                bad = (f"fixpoint:{src}:second-transform-{a['status']}", {"second_cfg": c2, "err": vlib.trunc(a.get("err"))})
                break
            if not a.get("same"):
                bad = (f"fixpoint:{src}:bytes-differ", {"second_cfg": c2, "second_out": vlib.trunc(a.get("out"), 2500)})
                break
        if bad:
            rep.violation(bad[0], {"source": c["src"], "xml": vlib.trunc(c["xml"], 3000), "cfg": c["cfg"], "out": vlib.trunc(r["out"], 2500), **bad[1]})
        else:
            rep.traces += 1
        if i % 1499 == 0:
            rep.sample({"source": c["src"], "xml": vlib.trunc(c["xml"], 600), "cfg": c["cfg"], "again": c["again"]})
    rep.notes["documents_fed_back"] = n_ok
    if n_ok < 200:
        raise vlib.ToolError("too few successful documents to feed back (vacuous)")
    rep.notes["rule"] = "every successfully transformed svg-rooted document of the corpus is transformed again under two further configurations; distinct = distinct (document, config)"
    rep.notes["exhaustive"] = False
    rep.level = "model_checking"


def replay(path):
    with open(path) as f:
        r = json.load(f)["replay"]
    res = vlib.run_cases([{"k": "replay", "xml": r["xml"], "cfg": r.get("cfg", {}), "again": [r.get("second_cfg", {})]}])
    print(json.dumps(res["replay"], indent=1)[:4000])
    return 0
