"""C10 Forward references: geometry is independent of document order.

Model: Interp.tla family "order": up to MaxNodes id'd shapes (optionally
inside a group), each positioned absolutely or against any other id (forward,
backward, dangling, self, cyclic), the target's size spelled wh or
width/height; every sibling order is a separate document.  TLC: the design's
outcome equals Sem.Ideal - x coordinates follow the reference DAG whatever the
order, unsatisfiable references fail, pending lists never grow, termination.
On the real code: x of every element equals the prediction (hence equal
across all permutations), unsatisfiable => Err.  Deviations StaleLookup and
AtomicGroupRetry give the as-built predictions used to recognise the listed
known findings."""
import json
import random

import interp
import vlib


def run(rep, tier, seed):
    rep.assumptions += ["'^' references are excluded (order-dependent by design, as the property states)",
                        "reference targets are shapes; group targets and richer consumers (surround, connectors, scalar refs) are covered by the geometry families"]
    cmp = interp.standard_compare()
    devsets = [("StaleLookup",), ("AtomicGroupRetry",), ("StaleLookup", "AtomicGroupRetry")]
    interp.family_check(rep, "order", tier, seed, cmp, dict(MaxNodes=4), dict(MaxNodes=5), devsets=devsets,
                        sample_quick=8000, sample_thorough=80000, need_outcomes=("ok", "ok/retried", "ref"))
    interp.simulate_family(rep, "order", seed, 3000 if tier == "thorough" else 500, cmp, devsets=devsets, min_size=5,
                           MaxNodes=7, MaxDepth=2)
    interp.negative_control(rep, "order", "StaleLookup", {"ResultIsIdeal"}, MaxNodes=3)
    interp.negative_control(rep, "order", "AtomicGroupRetry", {"ResultIsIdeal"}, MaxNodes=4)
    rep.notes["rule"] = "every document of the order family within MaxNodes: all reference graphs x all sibling orders x size spellings"
    rep.notes["exhaustive"] = True


def replay(path):
    with open(path) as f:
        r = json.load(f)["replay"]
    res = vlib.run_cases([{"k": "replay", "xml": r["xml"], "cfg": r.get("cfg", {}), "trace": False}])
    print(json.dumps(res["replay"], indent=1)[:4000])
    return 0
