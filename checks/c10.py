"""C10 Forward references: geometry is independent of document order.

Model: Interp.tla family "order": up to MaxNodes id'd shapes (optionally
inside a group), each positioned absolutely or against any other id (forward,
backward, dangling, self, cyclic), the target's size spelled wh or
width/height; every sibling order is a separate document.  TLC: the design's
outcome equals Sem.Ideal - x coordinates follow the reference DAG whatever the
order, unsatisfiable references fail, pending lists never grow, termination.
On the real code: x of every element equals the prediction (hence equal
across all permutations), unsatisfiable => Err.  Deviations StaleLookup and
AtomicGroupRetry give the as-built predictions used to recognise the listed
known findings."""
import json
import random

import geom
import interp
import vlib


def unsat_document(c):
    """a document whose only flaw is one reference that can never be satisfied (None: the
    combination does not denote such a reference)"""
    t, v, f = c["target"], c["via"], c["form"]
    ref = "#t" if v == "id" else "^"
    tgt = {"missing": "", "empty-g": '<g id="t"/>', "style-g": '<g id="t"><style>.k { fill: red; }</style></g>',
           "defs-only-g": '<g id="t"><defs><rect id="inner" wh="2"/></defs></g>', "self": None, "mutual": None,
           "point-size": '<point id="t" xy="3 3"/>'}[t]
    if t == "missing" and v == "prev":
        tgt = ""                      # "^" as the very first element: there is no previous element
    if t == "point-size":
        return None                   # (a point has a position and a size of zero: every use is satisfiable)
    if t in ("self", "mutual") and v == "prev":
        return None
    use = {"dir": f'<rect id="s" xy="{ref}|h 2" wh="2"/>', "loc": f'<rect id="s" xy="{ref}@br 1 1" wh="2"/>',
           "loc-xy2": f'<rect id="s" xy2="{ref}@tl" wh="2"/>', "loc-cxy": f'<circle id="s" cxy="{ref}@c" r="2"/>',
           "scalar-x": f'<rect id="s" x="{ref}~x2" y="0" wh="2"/>', "scalar-x2": f'<rect id="s" x2="{ref}@r 1" y="0" wh="2"/>',
           "size": f'<rect id="s" xy="0 0" wh="{ref} 50%"/>', "size-circle": f'<circle id="s" cxy="0 0" wh="{ref}"/>',
           "size-ellipse": f'<ellipse id="s" cxy="0 0" width="{ref}" height="3"/>', "size-line": f'<line id="s" xy1="0 0" wh="{ref}"/>',
           "size-width": f'<rect id="s" xy="0 0" width="{ref}~h" height="2"/>', "line-xy1": f'<line id="s" xy1="{ref}@r" xy2="9 9"/>',
           "surround": f'<rect id="s" surround="{ref}" margin="1"/>', "inside": f'<circle id="s" inside="{ref}"/>',
           "connector": f'<line id="s" start="{ref}" end="#ok"/>', "points": f'<polyline id="s" points="{ref}@tl 5 5"/>'}[f]
    if t == "self":
        use = use.replace("#t", "#s")
        tgt = ""
    if t == "mutual":
        tgt = '<rect id="t" xy="#s|v 1" wh="2"/>'
    if t == "point-size" and v == "prev":
        pass
    ok = '<rect id="ok" xy="20 20" wh="2"/>'
    if t == "missing" and v == "prev":
        return f"<svg>{use}{ok}</svg>"      # "^" in the very first element: there is no previous element
    # the target directly before the referring element, so that "^" means it
    return f"<svg>{ok}{tgt}{use}</svg>"


def run(rep, tier, seed):
    rep.assumptions += ["'^' references are excluded (order-dependent by design, as the property states)",
                        "reference targets are shapes; group targets and richer consumers (surround, connectors, scalar refs) are covered by the geometry families"]
    cmp = interp.standard_compare()
    devsets = [("StaleLookup",), ("AtomicGroupRetry",), ("StaleLookup", "AtomicGroupRetry")]
    interp.family_check(rep, "order", tier, seed, cmp, dict(MaxNodes=4), dict(MaxNodes=5), devsets=devsets,
                        sample_quick=8000, sample_thorough=80000, need_outcomes=("ok", "ok/retried", "ref"))
    interp.simulate_family(rep, "order", seed, 3000 if tier == "thorough" else 500, cmp, devsets=devsets, min_size=5,
                           MaxNodes=7, MaxDepth=2)
    interp.negative_control(rep, "order", "StaleLookup", {"ResultIsIdeal"}, MaxNodes=3)
    interp.negative_control(rep, "order", "AtomicGroupRetry", {"ResultIsIdeal"}, MaxNodes=4)
    # references that can never be satisfied, in every way of writing and using them
    ucs = geom.run_geom_family(rep, "unsat", tier, [])
    ucases = []
    for j, c in enumerate(ucs):
        xml = unsat_document(c)
        if xml:
            ucases.append({"k": f"c10u-{j}", "xml": xml, "case": c, "key": xml})

    def ucheck(c, resp):
        if resp["status"] != "err":
            cs = c["case"]
            # "^" with nothing before it: the form of use does not matter (one listed finding)
            sig = (f"unsat:{cs['target']}:{cs['via']}:{resp['status']}" if (cs["target"], cs["via"]) == ("missing", "prev")
                   else f"unsat:{cs['target']}:{cs['via']}:{cs['form']}:{resp['status']}")
            return (sig,
                    "a reference that can never be satisfied did not make the transform fail")
        return None
    geom.run_and_compare(rep, ucases, ucheck, "c10u")
    rep.notes["unsatisfiable_cases"] = len(ucases)
    rep.notes["rule"] = "every document of the order family within MaxNodes: all reference graphs x all sibling orders x size spellings"
    rep.notes["exhaustive"] = True


def replay(path):
    with open(path) as f:
        r = json.load(f)["replay"]
    res = vlib.run_cases([{"k": "replay", "xml": r["xml"], "cfg": r.get("cfg", {}), "trace": False}])
    print(json.dumps(res["replay"], indent=1)[:4000])
    return 0
