"""C14 Expressions evaluate with conventional arithmetic semantics, exactly once.

Model: spec/Expr.tla: abstract syntax, the conventional grammar as a
recursive-descent parser, Unparse with minimal / redundant parentheses; TLC
checks Parse(Unparse(tree)) = tree for every tree in bounds (precedence,
left associativity, unary minus, non-chaining comparison, calls, argument
lists) and that malformed strings have no parse.  Replay: the harness
evaluates the exported TREE in IEEE single precision (no parsing) and
compares with what the real evaluator prints for the token string, through
the direct evaluator entry and through documents in several attribute
contexts; malformed strings must fail the transform.  Single evaluation:
Interp.tla family "rng" (EvalOnce) - the PRNG advances exactly once per
random() occurrence per rendered element - plus a black-box metamorphic pair."""
import json
import math
import random
import struct

import interp
import vlib


def f32(x):
    try:
        return struct.unpack("f", struct.pack("f", x))[0]
    except OverflowError:
        return math.inf if x > 0 else -math.inf


class Skip(Exception):
    pass


def one(v):
    """the single number of a one-element list"""
    if len(v) != 1 or isinstance(v[0], str):
        raise Skip()
    return v[0]


def ev(t, env):
    """value of a tree: a list of items (numbers in f32, strings); scalars are lists of one"""
    op = t["op"]
    if op == "num":
        return [f32(float(t["v"]))]
    if op == "var":
        return [f32(float(env[t["v"]]))]
    if op == "str":
        return [t["v"][1:-1]]
    if op == "neg":
        return [-one(ev(t["a"][0], env))]
    if op == "bin":
        a, b = one(ev(t["a"][0], env)), one(ev(t["a"][1], env))
        o = t["v"]
        if o == "+":
            return [f32(a + b)]
        if o == "-":
            return [f32(a - b)]
        if o == "*":
            return [f32(a * b)]
        if o == "/":
            if b == 0:
                # IEEE: x/0 = +-inf, 0/0 = NaN (a negative zero divisor is not judged)
                if math.copysign(1.0, b) < 0:
                    raise Skip()
                return [math.nan if (a == 0 or math.isnan(a)) else math.copysign(math.inf, a)]
            return [f32(a / b)]
        if o == "%":
            if b == 0 or math.isinf(a) or math.isnan(a) or math.isnan(b) or math.isinf(b):
                raise Skip()
            r = math.fmod(a, b)
            if r < 0:
                r += abs(b)
            return [f32(r)]
        if o in ("lt", "gt", "le", "ge", "eq", "ne"):
            return [1.0 if {"lt": a < b, "gt": a > b, "le": a <= b, "ge": a >= b, "eq": a == b, "ne": a != b}[o] else 0.0]
        if o == "and":
            return [1.0 if (a != 0 and b != 0) else 0.0]
        if o == "or":
            return [1.0 if (a != 0 or b != 0) else 0.0]
        if o == "xor":
            return [1.0 if ((a != 0) != (b != 0)) else 0.0]
    if op == "call":
        f = t["v"]
        x = [item for a in t["a"] for item in ev(a, env)]    # argument lists flatten
        if f == "list":
            return x
        try:
            return call(f, x)
        except (OverflowError, ValueError, ZeroDivisionError):
            raise Skip()
    raise ValueError(t)


def call(f, x):
    if f in ("split", "splitw", "trim", "join"):
        if not all(isinstance(v, str) for v in x):
            raise Skip()
        if f == "split":
            return x[1].split(x[0])
        if f == "splitw":
            return x[0].split()
        if f == "trim":
            return [x[0].strip()]
        return [x[0].join(x[1:])]
    if f in ("head", "tail", "empty", "count"):
        return {"head": x[:1], "tail": x[1:], "empty": [1.0 if not x else 0.0], "count": [float(len(x))]}[f]
    if any(isinstance(v, str) for v in x):
        raise Skip()
    b = lambda c: [1.0 if c else 0.0]
    n = len(x)
    if f == "abs":
        return [abs(x[0])]
    if f == "ceil":
        return [float(math.ceil(x[0]))]
    if f == "floor":
        return [float(math.floor(x[0]))]
    if f == "fract":
        return [f32(x[0] - math.trunc(x[0]))]
    if f == "sign":
        return [0.0 if x[0] == 0 else (1.0 if x[0] > 0 else -1.0)]
    if f == "sqrt":
        if x[0] < 0:
            raise Skip()
        return [f32(math.sqrt(x[0]))]
    if f == "log":
        if x[0] <= 0:
            raise Skip()
        return [f32(math.log(x[0]))]
    if f == "exp":
        return [f32(math.exp(x[0]))]
    if f == "pow":
        if (x[0] < 0 and x[1] != int(x[1])) or (x[0] == 0 and x[1] < 0):
            raise Skip()
        return [f32(math.pow(x[0], x[1]))]
    if f == "sin":
        return [f32(math.sin(math.radians(x[0])))]
    if f == "cos":
        return [f32(math.cos(math.radians(x[0])))]
    if f == "tan":
        if abs(math.cos(math.radians(x[0]))) < 1e-3:
            raise Skip()
        return [f32(math.tan(math.radians(x[0])))]
    if f in ("asin", "acos"):
        if abs(x[0]) > 1:
            raise Skip()
        return [f32(math.degrees(math.asin(x[0]) if f == "asin" else math.acos(x[0])))]
    if f == "atan":
        return [f32(math.degrees(math.atan(x[0])))]
    if f == "randint":
        if x[0] != x[1] or x[0] != int(x[0]):
            raise Skip()          # only the degenerate range has a determined value
        return [x[0]]
    if f == "divmod":
        if x[1] <= 0:
            raise Skip()
        q = math.floor(x[0] / x[1])
        return [float(q), f32(x[0] - q * x[1])]
    if f in ("min", "max", "mean"):
        if not x:
            raise Skip()
        return [min(x)] if f == "min" else [max(x)] if f == "max" else [f32(sum(x) / n)]
    if f == "sum":
        return [f32(sum(x))]
    if f == "product":
        r = 1.0
        for v in x:
            r = f32(r * v)
        return [r]
    if f == "clamp":
        if x[1] > x[2]:
            raise Skip()
        return [max(x[1], min(x[2], x[0]))]
    if f == "mix":
        return [f32(x[0] * (1 - x[2]) + x[1] * x[2])]
    if f == "if":
        return [x[1] if x[0] != 0 else x[2]]
    if f == "not":
        return b(x[0] == 0)
    if f in ("eq", "ne", "lt", "le", "gt", "ge"):
        return b({"eq": x[0] == x[1], "ne": x[0] != x[1], "lt": x[0] < x[1], "le": x[0] <= x[1], "gt": x[0] > x[1], "ge": x[0] >= x[1]}[f])
    if f == "and":
        return b(x[0] != 0 and x[1] != 0)
    if f == "or":
        return b(x[0] != 0 or x[1] != 0)
    if f == "xor":
        return b((x[0] != 0) != (x[1] != 0))
    if f == "swap":
        return [x[1], x[0]]
    if f == "r2p":
        return [f32(math.hypot(x[0], x[1])), f32(math.degrees(math.atan2(x[1], x[0])))]
    if f == "p2r":
        return [f32(x[0] * math.cos(math.radians(x[1]))), f32(x[0] * math.sin(math.radians(x[1])))]
    if f == "select":
        if n < 1 or x[0] != int(x[0]) or not (0 <= int(x[0]) < n - 1):
            raise Skip()
        return [x[1 + int(x[0])]]
    if f in ("addv", "subv"):
        if n % 2:
            raise Skip()
        h = n // 2
        return [f32(x[i] + x[h + i]) if f == "addv" else f32(x[i] - x[h + i]) for i in range(h)]
    if f == "scalev":
        if n < 2:     # a vector has at least one component
            raise Skip()
        return [f32(x[0] * v) for v in x[1:]]
    if f == "in":
        if n < 1:
            raise Skip()
        return b(x[0] in x[1:])
    raise ValueError(f)


def text_of(toks, rnd):
    """token sequence -> expression text with optional whitespace"""
    out = []
    for i, t in enumerate(toks):
        out.append(t)
        nxt = toks[i + 1] if i + 1 < len(toks) else None
        if nxt is None:
            break
        wordy = lambda s: s[0].isalnum() or s[0] in "$."
        need = wordy(t) and wordy(nxt)
        if need or rnd.random() < 0.5:
            out.append(" ")
    return "".join(out)


def close1(got, exp):
    if isinstance(exp, str):
        return got == "'" + exp + "'"
    if math.isnan(exp) or math.isinf(exp):
        return got == ("NaN" if math.isnan(exp) else "inf" if exp > 0 else "-inf")
    try:
        g = float(got)
    except ValueError:
        return False
    if got.strip() in ("-0", "-0.0"):
        return False       # there is no negative zero to write
    if abs(exp) >= 1e6 and exp == int(exp):
        return got.strip() == str(int(exp))       # a whole number is written as it is, however large
    return abs(g - exp) <= 0.0015 + 2e-5 * abs(exp)


def close(got, exp, special=False):
    """got: printed value; exp: list of items.  None: not comparable (inf / nan outside IEEE-only trees)"""
    if not special and has_special(exp):
        return None
    parts = got.split(", ") if got != "" else []
    if len(parts) != len(exp):
        return False
    return all(close1(g, e) for g, e in zip(parts, exp))


def ieee_only(t):
    """special values are judged where they come from IEEE division, addition, multiplication, negation
    and comparison alone (functions applied to NaN / inf have no stated convention)"""
    if t["op"] == "num":
        return True
    if t["op"] == "neg" or (t["op"] == "bin" and t["v"] in ("+", "-", "*", "/", "lt", "gt", "le", "ge", "eq", "ne")):
        return all(ieee_only(a) for a in t["a"])
    if t["op"] == "call" and t["v"] in ("lt", "gt", "le", "ge", "eq", "ne"):
        return all(ieee_only(a) for a in t["a"])
    return False


def has_special(exp):
    return any((not isinstance(v, str)) and (math.isnan(v) or math.isinf(v)) for v in exp)


def scalar(exp):
    return len(exp) == 1 and not isinstance(exp[0], str)


def run(rep, tier, seed):
    rnd = random.Random(seed)
    big = tier == "thorough"
    rep.assumptions += ["IEEE arithmetic itself is delegated to the host's f32 conversion (struct 'f') and libm; transcendental functions compared within 2e-5 relative",
                        "variables hold plain numerals (textual substitution of other strings is macro expansion, outside conventional arithmetic)"]
    cfg = vlib.cfg_text(constants={"Family": "good", "Tier": tier}, invariants=["RoundTrip", "Export"])
    r = vlib.run_tlc("MC_Expr", cfg, "expr-good", workers=8, timeout=1500)
    if not r.ok:
        raise vlib.ToolError(f"Expr.tla: {r.violated}: specification error")
    rep.add_tlc(r, "Expr.tla family good: Parse(Unparse(tree)) = tree")
    good = r.replay
    cfg = vlib.cfg_text(constants={"Family": "bad", "Tier": tier}, invariants=["NoParse", "WrongArity", "Export"])
    rb = vlib.run_tlc("MC_Expr", cfg, "expr-bad", workers=8, timeout=900)
    if not rb.ok:
        raise vlib.ToolError(f"Expr.tla (bad): {rb.violated}: specification error")
    rep.add_tlc(rb, "Expr.tla family bad: malformed strings have no parse / wrong arity")
    limit = 60000 if big else 14000
    if len(good) > limit:
        # stratified: every function keeps its share, the arithmetic trees fill the rest
        by = {}
        for g in good:
            key = g["tree"]["v"] if g["tree"]["op"] == "call" else "-"
            if '"/", "0"' in json.dumps([t for t in g["toks"]]) or any(a == "/" and b == "0" for a, b in zip(g["toks"], g["toks"][1:])):
                key = "special:" + key      # division by zero: inf / NaN operands
            if any(t in ("65536", "0.0004", "3000", "100000000") for t in g["toks"]):
                key = "edge:" + key         # 32-bit boundary, values below the printed precision
            by.setdefault(key, []).append(g)
        per = max(60, (limit // 2) // max(1, len(by) - 1))
        sel = []
        for key, l in sorted(by.items()):
            if key == "-":
                continue
            rnd.shuffle(l)
            sel += l[:per]
        rest = by.get("-", [])
        rnd.shuffle(rest)
        good = sel + rest[:max(0, limit - len(sel))]
    envs = [{"a": "4", "b": "3"}, {"a": "-1.5", "b": "3"}, {"a": "0.25", "b": "3"}]
    cases = []
    for j, g in enumerate(good):
        env = envs[j % len(envs)]
        try:
            exp = ev(g["tree"], env)
        except Skip:
            continue
        if has_special(exp) and not ieee_only(g["tree"]):
            continue
        txt = text_of(g["toks"], random.Random(rnd.random()))
        cases.append({"k": f"c14-{j}", "op": "evalattr", "vars": [[k, v] for k, v in env.items()], "expr": "{{" + txt + "}}",
                      "exp": exp, "tree": g["tree"], "txt": txt, "env": env})
    res = vlib.run_cases([{k: c[k] for k in ("k", "op", "vars", "expr")} for c in cases])
    for i, c in enumerate(cases):
        rr = res[c["k"]]
        rep.case(c["txt"] + json.dumps(c["env"]))
        kind = c["tree"]["op"] + (":" + c["tree"]["v"] if c["tree"]["op"] in ("call",) else "")
        if rr["status"] != "ok":
            rep.violation(f"expr:{kind}:{rr['status']}", {"expr": c["txt"], "env": c["env"], "tree": c["tree"], "expected": c["exp"], "err": rr.get("err")})
            continue
        ok = close(rr["out"], c["exp"], special=True)
        if ok is False:
            rep.violation(f"expr:{kind}:value", {"expr": c["txt"], "env": c["env"], "tree": c["tree"], "expected": c["exp"], "got": rr["out"],
                                                  "detail": "value printed by the evaluator differs from the f32 value of the tree the string denotes"})
        else:
            rep.traces += 1
        if i % 2999 == 0:
            rep.sample({"expr": c["txt"], "env": c["env"], "expected": c["exp"], "got": rr.get("out")})
    # vacuity guard: every built-in function (random() is covered by the rng part) was compared
    per_fn = {}
    for c in cases:
        def walk(t):
            if t["op"] == "call":
                per_fn[t["v"]] = per_fn.get(t["v"], 0) + 1
            for a in t["a"]:
                walk(a)
        walk(c["tree"])
    all_fns = ("abs ceil floor fract sign divmod sqrt log exp pow sin cos tan asin acos atan randint min max sum product mean clamp mix "
               "eq ne lt le gt ge if not and or xor swap r2p p2r select addv subv scalev head tail empty count in split splitw trim join").split()
    missing = [f for f in all_fns if not per_fn.get(f)]
    rep.notes["functions_compared"] = per_fn
    if missing:
        raise vlib.ToolError(f"no compared case for functions {missing}")
    # the same through documents, in several attribute contexts
    ctxs = [lambda e: f'<svg><var a="{{a}}" b="{{b}}"/><rect id="s" wh="2" data-v="{{{{{e}}}}}"/></svg>',
            lambda e: f'<svg><var a="{{a}}" b="{{b}}"/><var z="{{{{{e}}}}}"/><rect id="s" wh="2" data-v="$z"/></svg>',
            lambda e: f'<svg><g a="{{a}}" b="{{b}}"><rect id="s" wh="2" data-v="{{{{1 + 1, {e}}}}}"/></g></svg>',
            lambda e: f'<svg><var a="{{a}}" b="{{b}}"/><rect wh="9" text="{{{{{e}}}}}"/></svg>',
            # geometry, comment, loop control, if test
            lambda e: f'<svg><var a="{{a}}" b="{{b}}"/><rect id="s" x="{{{{{e}}}}}" y="0" width="2" height="2"/></svg>',
            lambda e: f'<svg><var a="{{a}}" b="{{b}}"/><rect id="s" wh="2" _="{{{{{e}}}}}"/></svg>',
            lambda e: f'<svg><var a="{{a}}" b="{{b}}"/><loop count="2" loop-var="i" start="{{{{{e}}}}}" step="{{{{{e}}}}}"><rect class="it" wh="1" data-v="$i"/></loop></svg>',
            lambda e: f'<svg><var a="{{a}}" b="{{b}}"/><if test="{{{{{e}}}}}"><rect id="s" wh="2" data-v="1"/></if><rect id="z" xy="5 5" wh="1"/></svg>']
    scal = [c for c in cases if scalar(c["exp"]) and not has_special(c["exp"])]
    dsel = rnd.sample(scal, min(len(scal), 4000 if big else 800))
    dcases = []
    pairs = [(c, j % len(ctxs)) for j, c in enumerate(dsel)]
    # values at the 32-bit boundary and below the printed precision: in every context
    edge = [c for c in scal if any(t in ("65536", "0.0004", "3000", "100000000") for t in c["txt"].replace("(", " ").replace(")", " ").replace(",", " ").split())]
    pairs += [(c, ci) for c in edge for ci in (0, 1, 3, 7) if not (ci != 7 and abs(c["exp"][0]) < 0.001 and c["exp"][0] != 0)]
    for j, (c, ci) in enumerate(pairs):
        xml = ctxs[ci](vlib_escape(c["txt"])).replace("{a}", c["env"]["a"]).replace("{b}", c["env"]["b"])
        dcases.append({"k": f"c14d-{j}", "xml": xml, "cfg": {}, "c": c, "ctx": ci})
    dres = vlib.run_cases([{"k": d["k"], "xml": d["xml"], "cfg": d["cfg"]} for d in dcases])
    for d in dcases:
        rr = dres[d["k"]]
        c = d["c"]
        rep.case(d["xml"])
        if rr["status"] != "ok":
            rep.violation(f"expr:doc-context-{d['ctx']}:{rr['status']}", {"xml": d["xml"], "err": vlib.trunc(rr.get("err"))})
            continue
        root = vlib.parse_xml(rr["out"])
        got = None
        if d["ctx"] == 7:
            # rendered exactly when the value is non-zero
            present = any(e.attrs.get("id") == "s" for e in vlib.elements(root))
            if present != (c["exp"][0] != 0):
                rep.violation("expr:doc-context-7:value", {"xml": d["xml"], "expected": c["exp"], "got": f"body rendered: {present}"})
            else:
                rep.traces += 1
            continue
        if d["ctx"] == 6:
            vals = [e.attrs.get("data-v") for e in vlib.elements(root) if "it" in e.classes()]
            want = [c["exp"][0], f32(c["exp"][0] + c["exp"][0])]
            okl = len(vals) == 2 and all(v is not None and close(v, [w]) is not False for v, w in zip(vals, want))
            if not okl:
                rep.violation("expr:doc-context-6:value", {"xml": d["xml"], "expected": want, "got": vals})
            else:
                rep.traces += 1
            continue
        if d["ctx"] == 5:
            def comments(n):
                for ch in n.children:
                    if ch.kind == "comment":
                        yield ch.text
                    elif ch.kind == "el":
                        yield from comments(ch)
            cm = [t.strip() for t in comments(root) if t.strip() and not t.strip().startswith(("Generated", "Config"))]
            got = cm[0] if cm else None
        for e in vlib.elements(root):
            if d["ctx"] == 5:
                break
            if d["ctx"] == 3 and e.name == "text":
                got = e.text_content()
            elif d["ctx"] == 4 and e.attrs.get("id") == "s":
                got = e.attrs.get("x", "0")
            elif e.attrs.get("id") == "s":
                got = e.attrs.get("data-v")
        if d["ctx"] == 2 and got:
            parts = got.split(", ")
            got = parts[1] if len(parts) == 2 and parts[0] == "2" else None
        ok = got is not None and close(got, c["exp"])
        if ok is False or got is None:
            rep.violation(f"expr:doc-context-{d['ctx']}:value", {"xml": d["xml"], "expected": c["exp"], "got": got})
        else:
            rep.traces += 1
    # malformed expressions must fail the transform
    bcases = []
    for j, b in enumerate(rb.replay):
        txt = text_of(b["toks"], random.Random(rnd.random()))
        xml = f'<svg><var a="4" b="3"/><rect id="s" wh="2" data-v="{{{{{vlib_escape(txt)}}}}}"/></svg>'
        bcases.append({"k": f"c14b-{j}", "xml": xml, "cfg": {}, "b": b, "txt": txt})
    for j, e in enumerate(["random(1)", "random(1, 2)", "random(,)", "randint()", "randint(1)", "randint(1, 2, 3)"]):
        bcases.append({"k": f"c14b-rnd{j}", "xml": f'<svg><rect id="s" wh="2" data-v="{{{{{e}}}}}"/></svg>', "cfg": {},
                       "b": {"kind": "arity"}, "txt": e})
    bcases.append({"k": "c14b-circ", "xml": '<svg><var p="$q"/><var q="$p"/><rect wh="2" data-v="{{$p + 1}}"/></svg>', "cfg": {},
                   "b": {"kind": "circular-variable"}, "txt": "$p + 1 with p=$q, q=$p"})
    bres = vlib.run_cases([{"k": b["k"], "xml": b["xml"], "cfg": b["cfg"]} for b in bcases])
    for b in bcases:
        rr = bres[b["k"]]
        rep.case(b["xml"])
        if rr["status"] == "err":
            rep.traces += 1
        else:
            rep.violation(f"expr:bad:{b['b']['kind']}:{rr['status']}", {"expr": b["txt"], "xml": b["xml"], "status": rr["status"],
                                                                       "out": vlib.trunc(vlib_strip(rr.get("out")), 800),
                                                                       "detail": "a malformed expression yielded a value instead of failing the transform"})
    # exactly-once evaluation: the rng family of Interp.tla
    cmp = interp.standard_compare(check_rng=True)
    interp.family_check(rep, "rng", tier, seed, cmp, dict(MaxNodes=3), dict(MaxNodes=4), sample_quick=3000, sample_thorough=30000,
                        need_outcomes=("ok",))
    # black-box metamorphic pair: k elements with one random() each == one expression with k random()s
    mcases = []
    for sd in range(12 if big else 5):
        for k in (2, 3, 5):
            # (a <config> that gives no seed, anywhere among them, leaves the sequence alone)
            cfgel = ['<config border="3"/>', '<config font-size="4" theme="dark"/>', ""][sd % 3]
            a = "<svg>" + cfgel.join(f'<rect wh="1" data-r{i}="{{{{random()}}}}"/>' for i in range(k)) + "</svg>"
            b = '<svg><rect wh="1" data-r="{{' + ", ".join("random()" for _ in range(k)) + '}}"/></svg>'
            mcases.append((f"c14m-{sd}-{k}", a, b, {"seed": sd}))
    mres = vlib.run_cases([{"k": k + x, "xml": xml, "cfg": cfg} for k, a, b, cfg in mcases for x, xml in (("a", a), ("b", b))])
    import re
    for k, a, b, cfg in mcases:
        ra, rb_ = mres[k + "a"], mres[k + "b"]
        rep.case(k)
        if ra["status"] != "ok" or rb_["status"] != "ok":
            rep.violation("rng:metamorphic:not-ok", {"a": a, "b": b})
            continue
        va = re.findall(r'data-r\d+="([^"]*)"', ra["out"])
        vb = re.findall(r'data-r="([^"]*)"', rb_["out"])
        vb = vb[0].split(", ") if vb else []
        if va != vb or not va:
            rep.violation("rng:metamorphic:sequence", {"a": a, "b": b, "cfg": cfg, "values_a": va, "values_b": vb,
                                                       "detail": "k elements drawing one random() each see a different PRNG sequence than one expression drawing k times"})
        else:
            rep.traces += 1
    # every occurrence of random() / randint() advances the PRNG exactly once - also with
    # degenerate bounds; counted through the rng hook and compared with the occurrences
    occ = ["random()", "randint(1, 6)", "randint(7, 7)", "randint(0, 0)", "randint(-2, -2)", "randint(3, 4)"]
    ocases = []
    # ... whatever element carries the occurrence, however it is written (text as attribute or
    # as content, shapes, text, groups, variables, conditions, instances)
    hosts = ['<rect wh="1" data-r{i}="{{{{{e}}}}}"/>', '<rect wh="3" data-r{i}="{{{{{e}}}}}">label</rect>',
             '<circle r="2" data-r{i}="{{{{{e}}}}}" text="t"/>', '<text xy="0 0" data-r{i}="{{{{{e}}}}}">content</text>',
             '<text xy="0 0" data-r{i}="{{{{{e}}}}}" text="attr"/>', '<g data-r{i}="{{{{{e}}}}}"><rect wh="1"/></g>',
             '<line xy1="0 0" xy2="3 3" data-r{i}="{{{{{e}}}}}" text="l"/>', '<rect wh="2" text="{{{{{e}}}}}"/>',
             '<rect wh="{{{{1 + {e}}}}}">sized</rect>', '<var v{i}="{{{{{e}}}}}"/>', '<if test="{{{{1 + {e}}}}}"><rect wh="1"/></if>',
             '<ellipse rxy="2 1" data-r{i}="{{{{{e}}}}}">e</ellipse>', '<reuse href="#tpl" data-r{i}="{{{{{e}}}}}"/>',
             '<rect wh="2" data-r{i}="{{{{{e}}}}}"><![CDATA[cd]]></rect>', '<polyline points="0 0 2 2" data-r{i}="{{{{{e}}}}}"/>',
             # in the attributes the pipeline looks at before the others
             '<rect id="r{i}-{{{{{e}}}}}" wh="1"/>', '<g id="g{i}-{{{{{e}}}}}"><rect wh="1"/></g>', '<circle id="c{i}-{{{{{e}}}}}" r="2">txt</circle>',
             '<reuse href="#tpl" x="2" id="i{i}-{{{{{e}}}}}"/>', '<text id="t{i}-{{{{{e}}}}}" xy="0 0" text="x"/>', '<rect class="k{{{{{e}}}}}" wh="1"/>',
             '<rect style="opacity: {{{{{e}}}}}" wh="1"/>', '<rect transform="rotate({{{{{e}}}}})" wh="1"/>', '<rect xy="#tpl2|h {{{{{e}}}}}" wh="1"/>',
             '<rect wh="1" text="t" text-loc="t" text-offset="{{{{{e}}}}}"/>', '<use href="#tpl" x="{{{{{e}}}}}"/>', '<rect surround="#tpl2" margin="{{{{{e}}}}}"/>',
             '<path d="M 0 0 h {{{{{e}}}}}"/>', '<line start="#tpl2" end="{{{{{e}}}}} 9"/>']
    for j in range(120 if big else 40):
        k = rnd.randint(1, 5)
        picks = [rnd.choice(occ) for _ in range(k)]
        plain = j % 4 == 0
        body = "".join((hosts[0] if plain else rnd.choice(hosts)).format(i=i, e=e) for i, e in enumerate(picks))
        ocases.append({"k": f"c14o-{j}", "xml": f'<svg><specs><rect id="tpl" wh="1"/></specs><rect id="tpl2" xy="20 20" wh="2"/>{body}</svg>', "cfg": {"seed": j}, "n": k, "picks": picks})
    ores = vlib.run_cases([{"k": c["k"], "xml": c["xml"], "cfg": c["cfg"], "trace": False} for c in ocases])
    for c in ocases:
        rr = ores[c["k"]]
        rep.case(c["xml"])
        n = (rr.get("ts") or {}).get("counts", {}).get("rng", 0)
        if rr["status"] != "ok" or n != c["n"]:
            rep.violation("rng:draw-count", {"xml": c["xml"], "cfg": c["cfg"], "occurrences": c["n"], "draws": n, "status": rr["status"],
                                             "detail": "the PRNG must advance exactly once per random()/randint() occurrence"})
        else:
            rep.traces += 1
    rep.notes["rule"] = "trees enumerated by TLC (Expr.tla D1, D2, CallTrees, NestedCalls) x parenthesisation x variable bindings; malformed strings derived in the specification; rng family of Interp.tla"
    rep.notes["exhaustive"] = big


def vlib_escape(s):
    return s.replace("&", "&amp;").replace("<", "&lt;").replace('"', "&quot;")


def vlib_strip(s):
    import geom
    return geom.strip_style(s)


def replay(path):
    with open(path) as f:
        r = json.load(f)["replay"]
    if "xml" in r:
        res = vlib.run_cases([{"k": "replay", "xml": r["xml"], "cfg": r.get("cfg", {})}])
    else:
        res = vlib.run_cases([{"k": "replay", "op": "evalattr", "vars": [[k, v] for k, v in r["env"].items()], "expr": "{{" + r["expr"] + "}}"}])
    print(json.dumps(res["replay"], indent=1)[:4000])
    return 0
