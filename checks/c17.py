"""C17 Limits reject exactly when exceeded; depth means nesting, not length.

Model: spec/Interp.tla families depth / flat / loop / var with small limits
(every document within the bound, limits L-1, L, L+1 around every count).
TLC checks DepthIsNesting, ResultIsIdeal (LimitExact, nothing truncated),
CleanAtEnd, termination.  Every behaviour is replayed on the real code; every
recorded trace is validated against TraceStruct (depth at exit = depth at
entry on every path).  Default-limit instances (thousands of siblings,
nesting 99/100/101, 999/1000/1001 iterations, 1023/1024/1025 characters) use
the specification (Sem.Ideal evaluated by TLC) as oracle."""
import json
import random

import interp
import vlib
from interp import mk


def scaled_docs(rnd, tier):
    """Default-limit instances, described abstractly (same node vocabulary)."""
    out = []
    lit1 = {"t": "lit", "x": "-", "v": 1}

    def rec(doc, dl=100, ll=1000, vl=1024, str_=False, iv=0, what=""):
        return {"doc": doc, "dl": dl, "ll": ll, "vl": vl, "str": str_, "iv": iv, "what": what}

    lengths = [150, 1000] if tier == "quick" else [150, 1000, 5000]
    kinds = {
        "leaf": lambda i: mk(i, "leaf"),
        "leaf+content": lambda i: mk(i, "leaf", content=True),
        "cont": lambda i: mk(i, "cont", ch=[mk(i + 100000, "leaf")]),
        "cont+content": lambda i: mk(i, "cont", content=True),
        "g": lambda i: mk(i, "g", ch=[mk(i + 100000, "leaf")]),
        "loop": lambda i: mk(i, "loop", form="count", cnt=1, ch=[mk(i + 100000, "leaf")]),
        "if": lambda i: mk(i, "if", cond=lit1, ch=[mk(i + 100000, "leaf")]),
        "var": lambda i: mk(i, "var", asg=[["a", lit1]]),
        "reuse": lambda i: mk(i, "reuse", href=1) if i > 1 else mk(1, "leaf"),
    }
    for name, f in kinds.items():
        for n in lengths:
            if n > 1000 and name in ("reuse",):
                continue
            out.append(rec([f(i + 1) for i in range(n)], what=f"flat:{name}x{n}"))
    # mixed flat document
    names = list(kinds)
    out.append(rec([kinds[names[i % len(names)]](i + 1) for i in range(600)], what="flat:mixed x600"))
    # nesting 99 / 100 / 101 under the default limit, by kind of the chain
    for kind in ("g", "cont"):
        for depth in (99, 100, 101):
            node = mk(depth, "leaf")
            for d in range(depth - 1, 0, -1):
                node = mk(d, kind, ch=[node])
            out.append(rec([node], what=f"nest:{kind}x{depth}"))
    # loop iterations around the default limit
    for cnt in (999, 1000, 1001):
        out.append(rec([mk(1, "loop", form="count", cnt=cnt, ch=[mk(2, "leaf")])], what=f"loop:count{cnt}"))
        out.append(rec([mk(1, "var", asg=[["b", {"t": "lit", "x": "-", "v": 0}]]),
                        mk(2, "loop", form="while", cond={"t": "lt", "x": "b", "v": cnt},
                           ch=[mk(3, "leaf"), mk(4, "var", asg=[["b", {"t": "inc", "x": "b", "v": 0}]])])],
                       what=f"loop:while{cnt}"))
    for cnt in (999, 1000, 1001):
        out.append(rec([mk(1, "loop", form="for", cnt=cnt, lv="a", start=1, step=1, ch=[mk(2, "leaf", rd="a")])], what=f"loop:for{cnt}"))
    # variable length around the default limit (string mode)
    for ln in (1023, 1024, 1025):
        out.append(rec([mk(1, "var", asg=[["a", {"t": "lit", "x": "-", "v": ln}]]), mk(2, "leaf", rd="a")],
                       str_=True, iv=1, what=f"var:len{ln}"))
    # doubling in a loop: 1 -> 2 -> ... crosses 1024 at the 11th doubling
    for cnt in (10, 11):
        out.append(rec([mk(1, "loop", form="count", cnt=cnt, ch=[mk(2, "var", asg=[["a", {"t": "dbl", "x": "a", "v": 0}]])]),
                        mk(3, "leaf", rd="a")], str_=True, iv=1, what=f"var:double{cnt}"))
    return out


def run(rep, tier, seed):
    rnd = random.Random(seed)
    rep.assumptions += [
        "TLC explores every document of the families within the stated bounds; larger instances are sampled by parameter scaling",
        "the runner (harness/src/main.rs) and the expat-based projection are trusted",
        "exact depth boundaries are asserted for plain element nesting and shapes with text content, not for reuse chains",
    ]
    big = tier == "thorough"
    fams = [("depth", dict(MaxNodes=5 if big else 4)), ("flat", dict(MaxNodes=4 if big else 3)),
            ("looplim", dict(MaxNodes=4 if big else 3)), ("var", dict(MaxNodes=3)), ("config", dict(MaxNodes=4 if big else 3))]
    cmp = interp.standard_compare()
    for fam, over in fams:
        r = interp.model_check_family(rep, fam, tier, **over)
        rep.bounds[fam] = {k: (sorted(v) if isinstance(v, set) else v) for k, v in interp.constants(fam, **over).items()}
        recs = r.replay
        if not big and len(recs) > 2500:
            # stratified by outcome / retried so that rare classes are kept
            groups = {}
            for x in recs:
                groups.setdefault((x["res"], x["passes"] > 0, interp.doc_size(x["doc"])), []).append(x)
            share = max(1, 1000 // len(groups))
            picked, rest = [], []
            for g in groups.values():
                rnd.shuffle(g)
                picked += g[:share]
                rest += g[share:]
            rnd.shuffle(rest)
            recs = picked + rest[:max(0, 2500 - len(picked))]
        classes = {}
        for x in r.replay:
            classes[x["res"]] = classes.get(x["res"], 0) + 1
        rep.notes.setdefault("outcome_classes", {})[fam] = classes
        interp.replay_records(rep, recs, rnd.random(), tier, cmp, variants=2, tag="c17" + fam,
                              trace_budget=60000 if big else 25000)
    # vacuity guard: the boundary must have been exercised on both sides
    oc = rep.notes["outcome_classes"]
    for fam, need in (("depth", {"ok", "depth"}), ("looplim", {"ok", "loop"}), ("var", {"ok", "var"}), ("flat", {"ok"}),
                      ("config", {"ok", "loop", "depth"})):
        if not need <= set(oc[fam]):
            raise vlib.ToolError(f"family {fam} did not reach outcomes {need - set(oc[fam])}: vacuous")
    # negative controls (sharpness of the model)
    interp.negative_control(rep, "flat", "LeakDepthContainer", {"DepthIsNesting", "ResultIsIdeal", "CleanAtEnd"}, MaxNodes=3)
    interp.negative_control(rep, "looplim", "RetryLimitErrors", {"ResultIsIdeal"}, MaxNodes=3)
    if big:
        interp.negative_control(rep, "depth", "LeakDepthOnLimit", {"DepthIsNesting", "ResultIsIdeal", "CleanAtEnd"}, MaxNodes=3)

    # traces of the inputs the repository itself provides (the CCF lesson: they already
    # exercise the faulty paths; only their assertions cannot see the bookkeeping)
    ex, _ = vlib.example_traces()
    vlib.validate_named_traces(rep, ex, "c17ex", "examples", budget=80000)
    if big:
        st, tail = vlib.suite_traces()
        rep.notes["suite_run"] = tail
        vlib.validate_named_traces(rep, st, "c17suite", "suite", budget=400000)
    # default-limit instances with the specification as executable oracle
    sd = scaled_docs(rnd, tier)
    preds, r = interp.ideal_eval([{k: v for k, v in d.items() if k != "what"} for d in sd], "c17scaled")
    rep.notes["ideal_eval_docs"] = len(sd)
    cases, meta = [], {}
    for j, (d, p) in enumerate(zip(sd, preds)):
        doc = d["doc"]
        if d["iv"] >= 0:
            lit = {"t": "lit", "x": "-", "v": d["iv"]}
            doc = [mk(0, "var", asg=[["a", lit], ["b", lit]])] + doc
        rec = {"doc": doc, "lim": {"dl": d["dl"], "ll": d["ll"], "vl": d["vl"]}, "str": d["str"], "iv": -1,
               "res": p["res"], "items": None, "refsok": p["refsok"]}
        c = interp.Conc(rec, random.Random(rnd.random()), wrap=False, indent=True)
        k = f"scaled-{j}"
        cases.append({"k": k, "xml": c.xml(), "cfg": {}, "timeout_ms": 120000})
        meta[k] = (d, p, rec, c)
    res = vlib.run_cases(cases, timeout_ms=120000, procs=8)
    for case in cases:
        d, p, rec, c = meta[case["k"]]
        resp = res[case["k"]]
        rep.case("scaled:" + d["what"])
        bad = None
        if not interp.result_matches(p["res"], resp):
            cls, errs = interp.result_class(resp)
            bad = (f"scaled:{d['what'].split(':')[0]}:{p['res']}->{cls}{'/' + '+'.join(sorted(errs)) if errs else ''}",
                   f"{d['what']}: specification predicts {p['res']}, implementation {cls} {sorted(errs)}")
        elif resp["status"] in ("ok", "err") and not interp.probe_clean(resp):
            bad = ("scaled:probe-not-clean", str(resp["ts"]["probe"]))
        elif p["res"] == "ok":
            items = interp.project_items(resp["out"], d["str"])
            if len(items) != p["n"] or (items and (items[0] != p["first"][0] or items[-1] != p["last"][0])):
                bad = ("scaled:items", f"{d['what']}: {len(items)} rendered items, specification says {p['n']}; "
                                       f"first/last {items[:1]}/{items[-1:]} vs {p['first']}/{p['last']}")
        if bad:
            rep.violation(bad[0], {"what": d["what"], "xml": vlib.trunc(case["xml"], 3000), "status": resp["status"],
                                   "err": vlib.trunc(resp.get("err")), "detail": bad[1], "prediction": p})
        else:
            rep.traces += 1
    rep.sample({"scaled": sd[0]["what"], "prediction": preds[0]})
    rep.notes["rule"] = ("documents enumerated by TLC from Interp.tla families (every tree within MaxNodes) x limits; "
                         "a case is one (document, limits, wrapping) triple; distinct = distinct abstract document+limits+wrapping; "
                         "plus default-limit instances predicted by Sem.Ideal")
    rep.notes["exhaustive"] = True


def replay(path):
    with open(path) as f:
        r = json.load(f)["replay"]
    res = vlib.run_cases([{"k": "replay", "xml": r["xml"], "cfg": r.get("cfg", {}), "trace": False}])
    print(json.dumps(res["replay"], indent=1)[:4000])
    return 0
