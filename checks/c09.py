"""C09 Relative positioning places elements exactly where the relspec says.

Model: spec/Geom.tla family "rel": PlaceDir / PlaceAt / Loc / EdgeLoc /
Scalar / relative sizes / chains over reference kinds x subject kinds x
boxes.  TLC checks the identities of the layout reference on every case
(@t:0% = @tl, @t:100% = @tr, anchor round trip, centring on the shared axis,
gap).  Each case is replayed; the subject's output geometry must describe the
predicted box within the 3-decimal rounding."""
import json
import random

import geom
import vlib
from geom import q


def concretise(c, rnd):
    f = c["form"]
    if f == "chain":
        r = geom.ref_element("rect", c["ref"])
        g = q(c["gap"])
        # the middle element is placed by direction or, equivalently, by the offset of its
        # centre from the reference's centre; the three elements are written in any order
        # (a later element referenced by an earlier one is a forward reference)
        e1 = c["exp1"]
        rb = c["ref"]
        ddx = (e1["x1"] + e1["x2"]) / 2 - (rb["x1"] + rb["x2"]) / 2
        ddy = (e1["y1"] + e1["y2"]) / 2 - (rb["y1"] + rb["y2"]) / 2
        a_pos = rnd.choice([f'xy="#r|{c["d1"]} {g}"', f'cxy="#r@c {q(ddx)} {q(ddy)}"', f'cxy="#r {q(ddx)} {q(ddy)}"'])
        a_size = rnd.choice(['wh="2 1"', 'width="2" height="1"'])   # (a native size makes a half-evaluated box possible)
        els = [r, f'<rect id="a" {a_pos} {a_size}/>', None]
        order = rnd.choice([(0, 1, 2), (0, 1, 2), (2, 1, 0), (1, 0, 2), (2, 0, 1), (0, 2, 1), (1, 2, 0)])
        second_ref = rnd.choice(["#a", "^"]) if order == (0, 1, 2) else "#a"
        els[2] = f'<rect id="s" xy="{second_ref}|{c["d2"]} {g}" wh="1 3"/>'
        return "<svg>" + "".join(els[i] for i in order) + "</svg>"
    if f == "delta":
        k = c["kind"]
        v = (f'{q(c["a1"])} {q(c["a2"])}' if c["mode"] == "abs" else f'{c["a1"]}% {c["a2"]}%')
        d = rnd.choice([f'dwh="{v}"', f'dw="{v.split()[0]}" dh="{v.split()[1]}"'])
        pos = 'cxy="10 6"' if (c["anchor"] == "c" and rnd.random() < 0.5) else \
            ('xy="10 6"' + ("" if c["anchor"] == "tl" else f' xy-loc="{c["anchor"]}"'))
        size = 'wh="2 4"'
        if k == "circle":
            size = rnd.choice(['wh="2"', 'r="1"', 'wh="2 2"', 'width="2" height="2"'])
            d = rnd.choice([d, f'dwh="{v.split()[0]}"'])
        if k == "ellipse":
            size = rnd.choice(['wh="2 4"', 'rxy="1 2"', 'rx="1" ry="2"', 'width="2" height="4"'])
        return f'<svg><{k} id="s" {pos} {size} {d}/></svg>'
    if f == "linepts":
        r1 = geom.ref_element(rnd.choice(["rect", "ellipse", "box"]), c["ref"], "r")
        r2 = geom.ref_element(rnd.choice(["rect", "ellipse", "line"]), c["ref2"], "q", rnd)
        d = "" if (c["dx"] == 0 and c["dy"] == 0) else f' {q(c["dx"])} {q(c["dy"])}'
        if c["shape"] == "line":
            subj = f'<line id="s" xy1="#r@{c["l1"]}" xy2="#q@{c["l2"]}{d}"/>'
        else:
            subj = f'<polyline id="s" points="#r@{c["l1"]} #q@{c["l2"]}{d}"/>'
        els = [r1, r2, subj]
        rnd.shuffle(els)
        return "<svg>" + "".join(els) + "</svg>"
    if f == "reusepos":
        tk = c["tkind"]
        if tk == "circle" and c["w"] != c["h"]:
            tk = "ellipse"
        w, h = q(c["w"]), q(c["h"])
        param = ""
        if tk.endswith("-param"):
            tk = tk[:-6]
            param = f' pw="{w}" ph="{h}" hw="{q(c["w"] / 2)}" hh="{q(c["h"] / 2)}"'
            w, h = "$pw", "$ph"
        tpl = {"text": '<text id="t" xy="0 0" text="label"/>',
               "line": f'<line id="t" xy1="0 0" xy2="{w} {h}"/>', "linerev": f'<line id="t" xy1="{w} {h}" xy2="0 0"/>',
               "rect": f'<rect id="t" wh="{w} {h}"/>', "circle": f'<circle id="t" r="{q(c["w"] / 2)}"/>',
               "ellipse": (f'<ellipse id="t" rx="{q(c["w"] / 2)}" ry="{q(c["h"] / 2)}"/>' if not param else '<ellipse id="t" rx="$hw" ry="$hh"/>'),
               "g": f'<g id="t"><rect wh="{w} {h}"/></g>', "symbol": f'<symbol id="t"><rect wh="{w} {h}"/></symbol>'}[tk]
        an = c["anchor"]
        xs, ys = q(c["x"]), q(c["y"])
        base = ""
        if c["via"] == "abs-x":
            pos = f'x="{xs}"'
        elif c["via"] == "abs-y":
            pos = f'y="{ys}"'
        elif c["via"] == "dir":
            base = f'<rect id="b" x="{xs}" y="{ys}" width="1" height="1"/>'
            pos = f'xy="#b|{an} 1"'
        else:
            if c["via"] == "loc":
                base = f'<rect id="b" x="{xs}" y="{ys}" width="1" height="1"/>'
                xs, ys, both = None, None, "#b@tl"
            else:
                both = f"{xs} {ys}"
            if an == "tl":
                pos = rnd.choice([f'xy="{both}"', f'xy="{both}" xy-loc="tl"'] + ([f'x="{xs}" y="{ys}"'] if xs else []))
            elif an == "c":
                pos = rnd.choice([f'cxy="{both}"', f'xy="{both}" xy-loc="c"'] + ([f'cx="{xs}" cy="{ys}"'] if xs else []))
            elif an == "br" and tk.startswith("line"):
                # (xy2 / x2 / y2 on the reuse element of a line would override the line's own end point)
                pos = f'xy="{both}" xy-loc="br"'
            elif an == "br":
                pos = rnd.choice([f'xy2="{both}"', f'xy="{both}" xy-loc="br"'] + ([f'x2="{xs}" y2="{ys}"'] if xs else []))
            else:
                pos = f'xy="{both}" xy-loc="{an}"'
        # the reuse element's own style and classes go to the instance, whether or not the template has any
        sty = rnd.choice(["", ' style="opacity: 0.5"', ' style="opacity: 0.5" class="mine"'])
        if rnd.random() < 0.4:
            tpl = tpl.replace('id="t"', 'id="t" style="fill: red"', 1)
        use = f'<reuse id="s" href="#t" {pos}{sty}{param}/>'
        where = c["where"] if not param else "specs"     # a template that needs the variables is not drawn itself
        if where == "specs":
            return f"<svg>{base}<specs>{tpl}</specs>{use}</svg>"
        if where == "defs":
            if tk not in ("g", "symbol"):
                return f"<svg><specs>{tpl}</specs>{base}{use}</svg>"
            return f"<svg><defs>{tpl}</defs>{base}{use}</svg>"
        if where == "inline-before":
            return f"<svg>{tpl}{base}{use}</svg>"
        return f"<svg>{base}{use}{tpl}</svg>"
    r = geom.ref_element(c["refkind"], c["ref"], "r", rnd)
    ref = rnd.choice(["#r", "^"])
    k = c["kind"]
    if f == "prevpending":
        b = c["ref"]
        gap = " " + q(c["gap"])
        first = '<rect id="a" x="-40" y="-40" width="3" height="3"/>'
        pend = f'<rect id="r" xy="#anchor" wh="{q(b["x2"] - b["x1"])} {q(b["y2"] - b["y1"])}"/>'
        subj = f'<rect id="s" xy="^|{c["dir"]}{gap}" {geom.size_attrs("rect", c["w"], c["h"], rnd)}/>'
        more = rnd.choice(["", f'<rect id="s2" xy="^|h 1" wh="1"/>'])
        anchor = f'<point id="anchor" xy="{q(b["x1"])} {q(b["y1"])}"/>'
        return f"<svg>{first}{pend}{subj}{more}{anchor}</svg>"
    if f == "prevbox":
        b = c["ref"]
        gap = " " + q(c["gap"])
        first = '<rect id="d1" xy="#z|v 3" wh="1"/>'          # deferred: z comes last
        if c["refkind"] == "point":
            mid = f'<point id="r" xy="{q(b["x1"])} {q(b["y1"])}"/>'
        else:
            mid = f'<box id="r" x="{q(b["x1"])}" y="{q(b["y1"])}" width="{q(b["x2"] - b["x1"])}" height="{q(b["y2"] - b["y1"])}"/>'
        subj = f'<rect id="s" xy="^|{c["dir"]}{gap}" wh="#z"/>'       # deferred too (its size)
        later = f'<rect id="z" x="50" y="-40" width="{q(c["w"])}" height="{q(c["h"])}"/>'
        return f"<svg>{first}{mid}{subj}{later}</svg>"
    if f == "prevdefer":
        gap = " " + q(c["gap"])
        other = '<rect id="b" x="-30" y="40" width="2" height="2"/>'
        later = f'<rect id="z" x="50" y="-40" width="{q(c["w"])}" height="{q(c["h"])}"/>'
        subj = f'<rect id="s" xy="^|{c["dir"]}{gap}" wh="#z"/>'
        return f"<svg>{r}{subj}{other}{later}</svg>"
    if f == "dirdelta":
        gap = " " + q(c["gap"])
        dd = rnd.choice([f'dw="{q(c["dw"])}" dh="{q(c["dh"])}"', f'dwh="{q(c["dw"])} {q(c["dh"])}"'])
        return f'<svg>{r}<{k} id="s" xy="{ref}|{c["dir"]}{gap}" wh="2 1" {dd}/></svg>'
    if f == "dir":
        gap = "" if (c["gap"] == 0 and rnd.random() < 0.5) else " " + q(c["gap"])
        return f'<svg>{r}<{k} id="s" xy="{ref}|{c["dir"]}{gap}" {geom.size_attrs(k, c["w"], c["h"], rnd)}/></svg>'
    if f == "loc":
        d = "" if (c["dx"] == 0 and c["dy"] == 0) else f' {q(c["dx"])} {q(c["dy"])}'
        sz = geom.size_attrs(k, c["w"], c["h"], rnd)
        if c["anchor"] == "c" and rnd.random() < 0.5:
            return f'<svg>{r}<{k} id="s" cxy="{ref}@{c["loc"]}{d}" {sz}/></svg>'
        xl = "" if (c["anchor"] == "tl" and rnd.random() < 0.5) else f' xy-loc="{c["anchor"]}"'
        return f'<svg>{r}<{k} id="s" xy="{ref}@{c["loc"]}{d}"{xl} {sz}/></svg>'
    if f == "edge":
        off = f'{c["off"]}%' if c["okind"] == "pct" else q(c["off"])
        xl = "" if c["anchor"] == "tl" else f' xy-loc="{c["anchor"]}"'
        return f'<svg>{r}<rect id="s" xy="{ref}@{c["edge"]}:{off}"{xl} wh="2 1"/></svg>'
    if f == "scalar":
        a = c["attr"]
        other = 'y="1"' if a == "x" else 'x="1"'
        dl = {"none": "", "abs": " " + q(c["dval"]), "pct": f' {c["dval"]}%'}[c["dmode"]]
        return f'<svg>{r}<rect id="s" {a}="{ref}~{c["scalar"]}{dl}" {other} wh="2 1"/></svg>'
    if f == "size":
        if c["mode"] == "same":
            v = ref
        elif c["mode"] == "pct":
            v = f'{ref} {c["a"]}%'
        else:
            v = f'{ref} {q(c["a"])} {q(c["b"])}'
        subj = f'<{"ellipse" if k == "ellipse" else "rect"} id="s" xy="1 2" wh="{v}"/>'
        if c["refkind"] == "rect" and ref == "#r" and rnd.random() < 0.5:
            # the referenced element is itself waiting (positioned against an element written
            # later) and has its size adjusted by dw / dh: only its final size may be taken
            b = c["ref"]
            w, h = b["x2"] - b["x1"], b["y2"] - b["y1"]
            pend = (f'<rect id="r" xy="#anchor" width="{q(w - 4)}" height="{q(h + 4)}" dw="1" dh="-1"/>')
            anchor = f'<point id="anchor" xy="{q(b["x1"])} {q(b["y1"])}"/>'
            els = rnd.choice([[subj, pend, anchor], [pend, subj, anchor], [pend, anchor, subj]])
            return "<svg>" + "".join(els) + "</svg>"
        return f"<svg>{r}{subj}</svg>"
    raise ValueError(f)


IDS = ["r", "r", "r", "gr\u00f6\u00dfe", "\u03941", "r\u00e9f-2", "r_a-b"]
WS = [" ", " ", " ", "  ", "&#9;", "\t", "\n", " &#10; "]


def respell(xml, rnd):
    """The same document with the reference element under another (possibly non-ASCII) id
    and with other white space where a relspec separates its parts."""
    import re
    rid = rnd.choice(IDS)
    if rid != "r":
        xml = xml.replace('id="r"', f'id="{rid}"')
        xml = re.sub(r"#r(?![A-Za-z0-9_])", "#" + rid, xml)
    ws = rnd.choice(WS)
    if ws != " ":
        # inside attribute values that hold a reference: between the relspec and what follows it
        def sub(m):
            return m.group(1) + m.group(2).replace(" ", ws) + m.group(3)
        xml = re.sub(r'((?:xy|cxy|xy1|xy2|wh|x|y|width|height)=")([#^][^"]*)(")', sub, xml)
    return xml


def instance_bbox(el, case):
    """box of a reuse instance: a shape by its attributes, a group by its translate() applied to the template's box"""
    import re
    if el.name == "text":
        return (float(el.attrs.get("x", 0)), float(el.attrs.get("y", 0))) * 2
    if el.name != "g":
        return geom.el_bbox(el)
    w, h = case["w"] / 4, case["h"] / 4
    t = el.attrs.get("transform", "")
    m = re.fullmatch(r"\s*translate\(\s*([-+0-9.eE]+)[ ,]+([-+0-9.eE]+)\s*\)\s*", t) if t else None
    if not t:
        return (0.0, 0.0, w, h)
    if not m:
        return None
    x, y = float(m.group(1)), float(m.group(2))
    return (x, y, x + w, y + h)


def rel_check(c, resp):
    form = c["case"]["form"]
    if resp["status"] != "ok":
        return (f"rel:{form}:not-ok", f"transform failed: {resp.get('err')}")
    el = geom.find_by_id(resp["out"], "s")
    if el is None:
        return (f"rel:{form}:missing", "subject not in output")
    if form == "linepts":
        cs = c["case"]
        want = [cs["p1"][0] / 4, cs["p1"][1] / 4, cs["p2"][0] / 4, cs["p2"][1] / 4]
        if el.name == "line":
            got = [vlib.fnum(el.attrs.get(k, "")) for k in ("x1", "y1", "x2", "y2")]
        else:
            got = [vlib.fnum(t) for t in el.attrs.get("points", "").replace(",", " ").split()]
        if len(got) != 4 or any(g is None or abs(g - w) > 0.0015 for g, w in zip(got, want)):
            return ("rel:linepts:geometry", f"{el.name} drawn as {dict(el.attrs)}; the referenced locations are {want}")
        bad = [k for k in el.attrs if k in ("xy1", "xy2", "xy")]
        if bad:
            return ("rel:linepts:residue", f"attributes left behind: {bad}")
        return None
    if form == "reusepos":
        bb = instance_bbox(el, c["case"])
        if bb is None or not geom.box_close(bb, c["case"]["exp"]):
            return ("rel:reusepos:geometry", f"instance rendered as {el.name} {dict(el.attrs)}; expected its box at "
                                             f"{ {k: v / 4 for k, v in c['case']['exp'].items()} }")
        if "t" not in el.classes():
            return ("rel:reusepos:class", f"instance lacks the target's id as class: {dict(el.attrs)}")
        if 'style="opacity: 0.5"' in c["xml"] and "opacity: 0.5" not in el.attrs.get("style", ""):
            return ("rel:reusepos:style", f"the reuse element's style did not reach the instance: {dict(el.attrs)}")
        if 'class="mine"' in c["xml"] and "mine" not in el.classes():
            return ("rel:reusepos:class", f"the reuse element's class did not reach the instance: {dict(el.attrs)}")
        return None
    if not geom.box_close(geom.el_bbox(el), c["case"]["exp"]):
        return (f"rel:{form}:geometry", f"subject rendered as {el.name} {dict(el.attrs)}; the reference rules give box "
                                        f"{ {k: v / 4 for k, v in c['case']['exp'].items()} }")
    bad = geom.residue(el)
    if bad:
        return (f"rel:{form}:residue", f"attributes left behind: {bad}")
    return None


def run(rep, tier, seed):
    rnd = random.Random(seed)
    rep.assumptions += ["reference boxes / sizes / gaps are drawn from a bounded grid of quarter units (negative values included)",
                        "h/v placement only against elements with a bounding box"]
    recs = geom.run_geom_family(rep, "rel", tier, ["RelIdentities"])
    limit = 12000 if tier == "quick" else len(recs)
    if len(recs) > limit:
        by = {}
        for c in recs:
            by.setdefault(c["form"], []).append(c)
        recs = []
        for f, l in by.items():
            rnd.shuffle(l)
            recs += l[:max(300, limit // len(by))]
    cases = []
    for j, c in enumerate(recs):
        r2 = random.Random(rnd.random())
        xml = respell(concretise(c, r2), r2)
        cases.append({"k": f"c09-{j}", "xml": xml, "case": c, "key": xml})

    geom.run_and_compare(rep, cases, rel_check, "c09")
    forms = {}
    for c in recs:
        forms[c["form"]] = forms.get(c["form"], 0) + 1
    rep.notes["forms"] = forms
    rep.notes["rule"] = "cases enumerated by TLC (Geom.tla RelCases); distinct = distinct document text"
    rep.notes["exhaustive"] = tier == "thorough"


def replay(path):
    with open(path) as f:
        r = json.load(f)["replay"]
    res = vlib.run_cases([{"k": "replay", "xml": r["xml"], "cfg": r.get("cfg", {})}])
    print(json.dumps(res["replay"], indent=1)[:4000])
    return 0
