"""C07 Front-ends agree, transforms are isolated, and failures leave no damage.

Model: spec/Frontend.tla: requests through library / server / command
(stdout or output file, temp file then copy) interleaved arbitrarily over an
uninterpreted transform T.  TLC (all interleavings of up to MaxReq requests):
Agree, ErrorsReported, SameFileRefused, FilesSane, Functional, NoDamage
(action property), Served (liveness); deviations SharedState and
WriteInPlace are negative controls.  Replay: real histories - many different
transforms at once in one library process, svgdx command runs in every
in/out mode (with a pre-existing output file, failing inputs, output = input)
and concurrent HTTP requests against one svgdx-server - recorded as events and
validated by TLC against TraceFrontend.tla with T measured by fresh library
processes."""
import glob
import json
import os
import random
import shutil
import threading

import frontc
import vlib

GOOD = [
    '<svg><rect wh="10 5" text="hello" class="d-text-large"/><text xy="0 9" class="d-text-smaller d-text-bold">t</text></svg>',
    '<svg><rect id="a" wh="4"/><rect xy="#a|h 2" wh="3" class="d-fill-red"/><line start="#a" end="^" class="d-arrow"/></svg>',
    '<svg><loop count="3" loop-var="i"><circle cxy="{{$i * 4}} 0" r="{{1 + random()}}"/></loop></svg>',
    '<svg><var k="3"/><g k="5"><text xy="0 0" text="k=$k"/></g><text xy="0 5" text="k=$k"/></svg>',
    '<rect wh="3"/>',
    '<svg><specs><rect id="t" wh="$s"/></specs><reuse href="#t" s="2"/><reuse href="#t" s="4" x="9"/></svg>',
]
BAD = [
    '<svg><rect xy="#nowhere|h" wh="2"/></svg>',
    '<svg><rect wh="2"></svg>',
    '<svg><loop while="1"><rect wh="1"/></loop></svg>',
    '<svg><rect wh="{{1 +}}"/></svg>',
    # nothing comes before the first element: "^" has nothing to stand for - whatever the
    # thread transformed before
    '<svg><rect xy="^|h 2" wh="1"/></svg>',
    '<rect cxy="^@tr" wh="2"/>',
    '<svg><reuse href="^" x="3"/></svg>',
]
# the same bytes must mean the same to every front-end: line endings, declarations, BOM-less
# UTF-8, entity references, real SVG, fragments
LEXICAL = [
    '<svg>\r\n  <rect wh="4" text="a&#13;&#10;b" data-x="l1\r\nl2"/>\r\n  <!-- c1\r\nc2 -->\r\n  <text xy="0 9"><![CDATA[x\r\ny]]></text>\r\n</svg>\r\n',
    '<?xml version="1.0" encoding="UTF-8"?>\n<svg>\n\t<rect wh="3" text="t&amp;b &lt;é&gt; \u65e5\u672c"/>\n</svg>\n',
    '<svg xmlns="http://www.w3.org/2000/svg" width="5" height="5">\r\n<rect width="2" height="2" class="a  b"/>\r\n</svg>',
    '<svg><rect wh="2" _="comment\r\nwith lines"/><rect xy="^|h" wh="2" style="fill: red;\r\n stroke: blue"/></svg>',
    '<rect wh="3"/>\r\n<rect xy="^|v 1" wh="3"/>\r\n',
]
# not documents at all: character data only (every front-end must treat the bytes alike)
TEXT_ONLY = ["a > b & c", "hello  \nworld", "   ", "plain"]
# fail late, after part of the output has been produced
LATE_BAD = ['<!-- c --><svg width="wide"><rect wh="2"/></svg>',
            '<svg><rect wh="2"/><rect wh="3" xy="9 9"/><rect xy="#nowhere|h" wh="1"/></svg>']


def limit_docs():
    """Documents at, just under and over the resource limits: the ones over fail, and a
    failure must not use up anything (a counter, a budget) of the transforms that follow on the thread."""
    out = []
    for n in (40, 90, 95, 96, 97, 98, 99, 100, 101, 150, 400):
        out.append('<svg><rect wh="{{' + "(" * n + "1" + ")" * n + '}}"/></svg>')
    for n in (96, 97, 98, 99, 100, 101, 130):
        out.append("<svg>" + "<g>" * n + '<rect wh="1"/>' + "</g>" * n + "</svg>")
    for n in (999, 1000, 1001):
        out.append(f'<svg><loop count="{n}"><rect wh="1"/></loop></svg>')
    for n in (1023, 1024, 1025):
        out.append('<svg><var v="' + "x" * n + '"/><rect wh="1"/></svg>')
    out.append('<svg><var a="$b" b="$a"/><rect wh="$a"/></svg>')
    out.append('<svg>' + "".join(f'<var v{i}="{{{{$v{i + 1} + 1}}}}"/>' for i in range(120)) + '<var v120="1"/><rect wh="$v0"/></svg>')
    return out


EMPTY_OK = ['<specs><rect id="q" wh="1"/></specs>']


def run(rep, tier, seed):
    rnd = random.Random(seed)
    big = tier == "thorough"
    rep.assumptions += ["crash points inside the copy of the temporary file are explored in the model only",
                        "the server answering 400 for a successful but empty output is a deliberate deviation of server.rs (allowed by TraceFrontend.tla)"]
    inv = ["Agree", "ErrorsReported", "SameFileRefused", "FilesSane", "Functional"]
    r = vlib.run_tlc("Frontend", vlib.cfg_text(constants={"MaxReq": 3, "Deviations": set()}, invariants=inv,
                                               properties=["NoDamage"] + (["Served"] if big else [])), "c07-fe", workers=8, timeout=1500, keep_stdout=False)
    if not r.ok:
        raise vlib.ToolError(f"Frontend.tla: {r.violated}: specification error")
    rep.add_tlc(r, "Frontend.tla design, MaxReq=3: Agree, ErrorsReported, SameFileRefused, FilesSane, Functional, NoDamage" + (", Served" if big else ""))
    if not big:
        rl = vlib.run_tlc("Frontend", vlib.cfg_text(constants={"MaxReq": 2, "Deviations": set()}, invariants=inv, properties=["NoDamage", "Served"]),
                          "c07-live", workers=8, timeout=900, keep_stdout=False)
        if not rl.ok:
            raise vlib.ToolError(f"Frontend.tla liveness: {rl.violated}")
        rep.add_tlc(rl, "Frontend.tla MaxReq=2 incl. Served (liveness)")
    for dev, expect in (("SharedState", {"Agree", "Functional"}), ("WriteInPlace", {"FilesSane", "NoDamage"})):
        rn = vlib.run_tlc("Frontend", vlib.cfg_text(constants={"MaxReq": 2, "Deviations": {dev}}, invariants=inv, properties=["NoDamage"]),
                          "c07-neg", workers=4, timeout=600, keep_stdout=False)
        rep.notes.setdefault("negative_controls", []).append({"deviation": dev, "violated": rn.violated})
        if rn.violated not in expect:
            raise vlib.ToolError(f"negative control {dev}: TLC reported {rn.violated}")

    svgdx, server_bin = vlib.build_bins()
    docs = list(GOOD) + list(LEXICAL) + list(TEXT_ONLY) + list(BAD) + list(LATE_BAD) + list(EMPTY_OK)
    for f in sorted(glob.glob(os.path.join(vlib.REPO, "examples", "*.xml")))[: (20 if big else 6)]:
        docs.append(open(f, encoding="utf-8").read())
    cfgs = [{}, {"add_metadata": True}, {"seed": 7, "theme": "dark"}, {"debug": True, "border": 9},
            # one variation of every configuration field: requests that differ in nothing else must not share results
            {"font_size": 5.0}, {"font_family": "serif"}, {"background": "lightyellow"}, {"scale": 2.0}, {"border": 0},
            {"theme": "bold"}, {"theme": "glass"}, {"add_auto_styles": False}, {"svg_style": "max-width: 100%"}, {"seed": 99}]
    keys = [(d, c) for d in docs for c in cfgs]
    limit_keys = [(d, {}) for d in limit_docs()]
    keys += limit_keys
    # T measured by fresh library processes (one process per key batch)
    cases = [{"k": f"t{j}", "xml": d, "cfg": c, "str_api": True} for j, (d, c) in enumerate(keys)]
    tres = vlib.run_isolated(cases)      # one fresh process per key: T has no history
    events = []
    T = {}
    for j, (d, c) in enumerate(keys):
        rr = tres[f"t{j}"]
        if rr["status"] in ("panic", "abort", "hang"):
            rep.violation("frontend:lib:crash", {"xml": vlib.trunc(d, 1000), "cfg": c, "status": rr["status"]})
            continue
        key = frontc.key_of(d, c)
        ev = frontc.table_event(key, rr)
        T[key] = ev
        events.append(ev)
    ops = []
    # the string function next to the stream function (T is measured through the stream function)
    for j, (d, c) in enumerate(keys):
        sr = tres[f"t{j}"].get("str_api")
        if sr is None:
            continue
        st = "ok" if sr["status"] == "ok" else "fail"
        ops.append(({"e": "op", "fe": "lib-str", "key": frontc.key_of(d, c), "status": st, "hash": frontc.h(sr.get("out")) if st == "ok" else "-",
                     "before": "-", "after": "-", "samefile": False}, {"xml": d, "cfg": c, "api": "transform_str"}))
    # ... and as a SEQUENCE in one process (shuffled: failing documents between succeeding ones)
    seq = [{"k": f"q{j}", "xml": d, "cfg": c, "str_api": True} for j, (d, c) in enumerate(keys)]
    for rnd_round in range(2):
        order = list(seq)
        # the requests that fail on a limit come several times over
        order += [{"k": f"x{j}-{i}", "xml": d, "cfg": c} for j, (d, c) in enumerate(limit_keys) for i in range(4)]
        random.Random(seed * 31 + rnd_round).shuffle(order)
        sres = vlib._run_chunk(vlib.build_runner(), order, 60000, 4096)
        for j, (d, c) in enumerate(keys):
            r0 = sres.get(f"q{j}") or {}
            for fe, r in (("lib-stream", r0), ("lib-str", r0.get("str_api"))):
                if not r or r.get("status") in (None, "toolerr"):
                    continue
                if r["status"] in ("panic", "abort", "hang"):
                    rep.violation(f"frontend:{fe}:crash", {"xml": vlib.trunc(d, 1000), "cfg": c, "status": r["status"]})
                    continue
                st = "ok" if r["status"] == "ok" else "fail"
                ops.append(({"e": "op", "fe": fe, "key": frontc.key_of(d, c), "status": st, "hash": frontc.h(r.get("out")) if st == "ok" else "-",
                             "before": "-", "after": "-", "samefile": False}, {"xml": d, "cfg": c, "api": fe, "order": "sequence in one process"}))
    # (a) the library: many different transforms at once in one process
    conc = [{"xml": d, "cfg": c} for (d, c) in keys]
    rnd.shuffle(conc)
    rr = vlib.run_cases([{"k": "conc", "op": "concurrent", "cases": conc, "threads": 8, "reps": 3 if big else 2, "timeout_ms": 300000}],
                        timeout_ms=300000)["conc"]
    for cse, results in zip(conc, rr["results"]):
        key = frontc.key_of(cse["xml"], cse["cfg"])
        for res in results:
            st = "ok" if res["status"] == "ok" else "fail"
            ops.append(({"e": "op", "fe": "lib-thread", "key": key, "status": st, "hash": frontc.h(res.get("out")) if st == "ok" else "-",
                         "before": "-", "after": "-", "samefile": False}, cse))
    # (b) the command
    wd = vlib.workdir("c07cli")
    modes = ["file-file", "stdin-stdout", "file-stdout", "stdin-file"]
    cli_keys = [(d, c) for (d, c) in keys]
    rnd.shuffle(cli_keys)
    for j, (d, c) in enumerate(cli_keys[: (120 if big else 40)]):
        mode = modes[j % 4]
        key = frontc.key_of(d, c)
        initial = None if j % 3 == 0 else b"<svg>previous output</svg>\n"
        ev, p = frontc.run_cli(svgdx, mode, d, c, wd, out_initial=initial)
        ev["key"] = key
        if ev["status"] == "fail" and ev["stderr_empty"]:
            rep.violation("frontend:cli:silent-failure", {"xml": vlib.trunc(d, 800), "cfg": c, "mode": mode, "rc": p.returncode})
        ops.append((ev, {"xml": d, "cfg": c, "mode": mode}))
    # output = input, by the same name and by every other route to the same file
    for j, (d, c) in enumerate(cli_keys[:8]):
        route = [True, "dotdot", "symlink", "relative"][j % 4]
        ev, p = frontc.run_cli(svgdx, "file-file", d, c, wd, samefile=route)
        ev["key"] = frontc.key_of(d, c)
        ops.append((ev, {"xml": d, "cfg": c, "mode": f"file-file output=input (route: {route if route is not True else 'same name'})"}))
    shutil.rmtree(wd, ignore_errors=True)
    # (c) the server: concurrent requests against one process
    srv = frontc.Server(server_bin)
    try:
        skeys = [(d, c) for (d, c) in keys if set(c) <= {"add_metadata"}]
        work = skeys * (4 if big else 2)
        rnd.shuffle(work)
        lock = threading.Lock()

        def worker(items):
            for d, c in items:
                try:
                    status, body, ctype = srv.post(d, add_metadata=bool(c.get("add_metadata")))
                except Exception as e:  # connection failure = the server is gone
                    with lock:
                        ops.append(({"e": "op", "fe": "server", "key": frontc.key_of(d, c), "status": "crash", "hash": "-", "before": "-",
                                     "after": "-", "samefile": False}, {"xml": d, "cfg": c, "error": str(e)}))
                    continue
                st = "ok" if status == 200 else ("fail" if status == 400 else f"http-{status}")
                with lock:
                    ops.append(({"e": "op", "fe": "server", "key": frontc.key_of(d, c), "status": st,
                                 "hash": frontc.h(body) if st == "ok" else "-", "before": "-", "after": "-", "samefile": False},
                                {"xml": d, "cfg": c, "http": status, "content_type": ctype}))
        nthr = 6
        ths = [threading.Thread(target=worker, args=(work[i::nthr],)) for i in range(nthr)]
        for t in ths:
            t.start()
        for t in ths:
            t.join()
        # liveness after the failures: one more good request must be served
        try:
            status, body, _ = srv.post(GOOD[0])
            if status != 200:
                rep.violation("frontend:server:not-serving", {"status": status})
        except Exception as e:
            rep.violation("frontend:server:dead", {"error": str(e), "alive": srv.alive()})
    finally:
        srv.stop()
    info = {}
    for ev, meta in ops:
        events.append({k: v for k, v in ev.items() if k in ("e", "fe", "key", "status", "hash", "before", "after", "samefile")})
        info[id(events[-1])] = meta
        rep.case(ev["fe"] + ev["key"] + ev.get("before", "") + str(ev.get("samefile")))
    metas = {json.dumps({k: v for k, v in ev.items() if k in ("e", "fe", "key", "status", "hash", "before", "after", "samefile")}, sort_keys=True): meta
             for ev, meta in ops}
    rejected, n = frontc.validate_history(events, "c07")
    for ev in rejected:
        meta = metas.get(json.dumps(ev, sort_keys=True), {})
        exp = T.get(ev.get("key"))
        rep.violation(f"frontend:{ev.get('fe')}:{'samefile' if ev.get('samefile') else ev.get('status')}",
                      {"event": ev, "expected_T": exp, "xml": vlib.trunc(meta.get("xml"), 1500), "cfg": meta.get("cfg"), "meta": {k: v for k, v in meta.items() if k not in ("xml", "cfg")},
                       "detail": "this completed request is not allowed by TraceFrontend.tla (result differs from T of its own input, "
                                 "or a failure changed the output file, or output=input was not refused)"})
    rep.traces += len(events) - len(rejected)
    fes = {}
    for ev, _ in ops:
        fes[ev["fe"]] = fes.get(ev["fe"], 0) + 1
    rep.notes["operations_by_frontend"] = fes
    rep.sample({"event": events[len(T) + 1], "table_entries": len(T)})
    rep.notes["rule"] = "history of completed requests over all front-ends; distinct = (front-end, key, file state)"
    rep.notes["exhaustive"] = False


def replay(path):
    print(open(path).read()[:3000])
    return 0
