"""C15 Variable scoping is lexical and unaffected by evaluation order.

Model: spec/Interp.tla family "scope": every nesting (<= MaxNodes nodes) of
g (attribute locals) / var (incl. parallel swap) / if / loop with probes that
read a, b or the undefined u at every position, and forward references at
every position (they force re-evaluation).  TLC: ScopeBalanced at every state,
ResultIsIdeal (probe values = lexical lookup in Sem.Ideal), CleanAtEnd.
Replay: probe values in the output of the real code = prediction; end probe
clean.  Traces: TraceStruct (scope height at every exit = at entry)."""
import json
import random

import interp
import vlib


def run(rep, tier, seed):
    rep.assumptions += [
        "documents in which a subtree that may be re-evaluated writes variables escaping it are excluded (their meaning under retry is exactly what the property leaves to the known finding LateEnv)",
        "TLC bounds: see bounds; runner and expat projection trusted",
    ]
    cmp = interp.standard_compare()
    devsets = [("LateEnv",), ("AtomicGroupRetry",), ("LateEnv", "AtomicGroupRetry")]
    interp.family_check(rep, "scope", tier, seed, cmp, dict(MaxNodes=3), dict(MaxNodes=4), devsets=devsets,
                        sample_quick=6000, sample_thorough=60000, need_outcomes=("ok", "ok/retried", "ref"))
    # reuse scopes: attribute bindings visible to the instance only
    interp.family_check(rep, "scope0", tier, seed + 2, cmp, dict(MaxNodes=3), dict(MaxNodes=4), devsets=devsets,
                        sample_quick=4000, sample_thorough=60000, need_outcomes=("ok",))
    interp.family_check(rep, "reuse", tier, seed + 1, cmp, dict(MaxNodes=3), dict(MaxNodes=4),
                        devsets=[("LateEnv",)], sample_quick=3500, sample_thorough=30000, need_outcomes=("ok",))
    # larger nestings by random simulation of the same specification
    # string-valued variables (a value may be the empty string - which is still a definition)
    interp.family_check(rep, "var", tier, seed + 4, cmp, dict(MaxNodes=3), dict(MaxNodes=4), sample_quick=2500, sample_thorough=20000,
                        need_outcomes=("ok",))
    interp.simulate_family(rep, "scope", seed, 3000 if tier == "thorough" else 600, cmp, devsets=devsets, min_size=4,
                           MaxNodes=6, MaxDepth=4)
    ex, _ = vlib.example_traces()
    vlib.validate_named_traces(rep, ex, "c15ex", "examples", budget=80000)
    if tier == "thorough":
        st, tail = vlib.suite_traces()
        rep.notes["suite_run"] = tail
        vlib.validate_named_traces(rep, st, "c15suite", "suite", budget=400000)
    interp.negative_control(rep, "scope", "LeakScopeOnError", {"ScopeBalanced", "ResultIsIdeal", "CleanAtEnd"}, MaxNodes=3)
    interp.negative_control(rep, "scope", "LateEnv", {"ResultIsIdeal"}, MaxNodes=3)
    rep.notes["rule"] = ("every document of the scope / reuse families within MaxNodes, enumerated by TLC; case = "
                         "(document, wrapping); non-trivial = distinct abstract document")
    rep.notes["exhaustive"] = True


def replay(path):
    with open(path) as f:
        r = json.load(f)["replay"]
    res = vlib.run_cases([{"k": "replay", "xml": r["xml"], "cfg": r.get("cfg", {}), "trace": False}])
    print(json.dumps(res["replay"], indent=1)[:4000])
    return 0
