"""C15 Variable scoping is lexical and unaffected by evaluation order.

Model: spec/Interp.tla family "scope": every nesting (<= MaxNodes nodes) of
g (attribute locals) / var (incl. parallel swap) / if / loop with probes that
read a, b or the undefined u at every position, and forward references at
every position (they force re-evaluation).  TLC: ScopeBalanced at every state,
ResultIsIdeal (probe values = lexical lookup in Sem.Ideal), CleanAtEnd.
Replay: probe values in the output of the real code = prediction; end probe
clean.  Traces: TraceStruct (scope height at every exit = at entry)."""
import json
import random

import interp
import vlib


def run(rep, tier, seed):
    rep.assumptions += [
        "documents in which a subtree that may be re-evaluated writes variables escaping it are kept out of the scope / loop families and explored in the family escw, where the design machine is the reference (finding DeferredWrites)",
        "TLC bounds: see bounds; runner and expat projection trusted",
    ]
    cmp = interp.standard_compare()
    devsets = [("LateEnv",), ("AtomicGroupRetry",), ("LateEnv", "AtomicGroupRetry")]
    interp.family_check(rep, "scope", tier, seed, cmp, dict(MaxNodes=3), dict(MaxNodes=4), devsets=devsets,
                        sample_quick=6000, sample_thorough=60000, need_outcomes=("ok", "ok/retried", "ref"))
    # reuse scopes: attribute bindings visible to the instance only
    interp.family_check(rep, "scope0", tier, seed + 2, cmp, dict(MaxNodes=3), dict(MaxNodes=4), devsets=devsets,
                        sample_quick=4000, sample_thorough=60000, need_outcomes=("ok",))
    interp.family_check(rep, "reuse", tier, seed + 1, cmp, dict(MaxNodes=3), dict(MaxNodes=4),
                        devsets=[("LateEnv",)], sample_quick=3500, sample_thorough=30000, need_outcomes=("ok",))
    # larger nestings by random simulation of the same specification
    # string-valued variables (a value may be the empty string - which is still a definition)
    interp.family_check(rep, "var", tier, seed + 4, cmp, dict(MaxNodes=3), dict(MaxNodes=4), sample_quick=2500, sample_thorough=20000,
                        need_outcomes=("ok",))
    interp.simulate_family(rep, "scope", seed, 3000 if tier == "thorough" else 600, cmp, devsets=devsets, min_size=4,
                           MaxNodes=6, MaxDepth=4)
    ex, _ = vlib.example_traces()
    vlib.validate_named_traces(rep, ex, "c15ex", "examples", budget=80000)
    if tier == "thorough":
        st, tail = vlib.suite_traces()
        rep.notes["suite_run"] = tail
        vlib.validate_named_traces(rep, st, "c15suite", "suite", budget=400000)
    # deferred subtrees that assign variables outliving them: the design machine is the reference
    # for what the code does; where the machine itself departs from the reference meaning (the
    # siblings after the deferred writer were rendered without its assignments) and the code
    # agrees with the machine, that is the recorded finding DeferredWrites
    def cmp_esc(rec, c, resp):
        bad = cmp(rec, c, resp)
        if bad is None and rec.get("esc") and (rec["res"] == "ok" or rec["ideal"] == "ok") \
                and (rec["res"], rec["items"]) != (rec["ideal"], rec["iitems"]):
            return ("DeferredWrites:items", f"rendered as the design machine predicts ({rec['res']}, {rec['items']}); the reference meaning is "
                                            f"({rec['ideal']}, {rec['iitems']}): a variable assigned inside a deferred element is not seen by the elements after it")
        return bad
    re_ = interp.family_check(rep, "escw", tier, seed + 9, cmp_esc, dict(MaxNodes=5), dict(MaxNodes=5),
                              sample_quick=4000, sample_thorough=40000, need_outcomes=("ok", "ok/retried"))
    nesc = sum(1 for x in re_.replay if x["esc"])
    ndiff = sum(1 for x in re_.replay if x["esc"] and x["res"] == "ok" and (x["items"] != x["iitems"]))
    rep.notes["escw"] = {"documents": len(re_.replay), "with_deferred_writer": nesc, "machine_differs_from_reference": ndiff}
    if not nesc or not ndiff or ndiff == nesc:
        raise vlib.ToolError(f"family escw vacuous: {rep.notes['escw']}")
    varref(rep, tier, seed)
    reuse_own_attrs(rep)
    interp.negative_control(rep, "scope", "LeakScopeOnError", {"ScopeBalanced", "ResultIsIdeal", "CleanAtEnd"}, MaxNodes=3)
    interp.negative_control(rep, "scope", "LateEnv", {"ResultIsIdeal"}, MaxNodes=3)
    rep.notes["rule"] = ("every document of the scope / reuse families within MaxNodes, enumerated by TLC; case = "
                         "(document, wrapping); non-trivial = distinct abstract document")
    rep.notes["exhaustive"] = True


VR_CH = {"e": "\u00e9"}
VR_VAL = {"A": "7", "AB": "88", "A1": "604", "AU": "33", "E": "9.5", "BE": "12", "AE": "41"}
VR_NAMES = {"a": "A", "ab": "AB", "a1": "A1", "a_": "AU", "\u00e9": "E", "b\u00e9": "BE", "a\u00e9": "AE"}


def varref(rep, tier, seed):
    """spec/VarRef.tla: which name a '$' reference denotes (longest run of name characters,
    braces, non-ASCII letters, undefined names verbatim), under every way of defining the names"""
    rnd = random.Random(seed + 77)
    cfg = vlib.cfg_text(constants={"MaxLen": 5 if tier == "thorough" else 4}, invariants=["Verbatim", "NoNewDollar", "Export"])
    r = vlib.run_tlc("MC_VarRef", cfg, "varref", workers=8, timeout=900)
    if not r.ok:
        raise vlib.ToolError(f"VarRef.tla: {r.violated}: specification error")
    rep.add_tlc(r, "VarRef.tla: expansion of every string with a '$' up to MaxLen; Verbatim, NoNewDollar")
    recs = r.replay
    if tier != "thorough" and len(recs) > 6000:
        recs = rnd.sample(recs, 6000)
    conc = lambda toks: "".join(VR_VAL.get(t, VR_CH.get(t, t)) for t in toks)
    defs = lambda scale: " ".join(f'{n}="{VR_VAL[v] if scale == 1 else "0" + VR_VAL[v]}"' for n, v in VR_NAMES.items())
    cases = []
    for j, c in enumerate(recs):
        text = conc(c["s"])
        probe = f'<rect id="p" wh="1" data-v="{text}"/>'
        car = c["carrier"]
        if car == "var":
            xml = f"<svg><var {defs(1)}/>{probe}</svg>"
        elif car == "var+defaults":
            xml = f'<svg><defaults><_ b="99" ba="98" b1="97" _="n"/></defaults><var {defs(1)}/>{probe}</svg>'
        elif car == "g-attrs":
            xml = f"<svg><g {defs(1)}>{probe}</g></svg>"
        elif car == "reuse-attrs":
            xml = f'<svg><specs><rect id="t" wh="1" data-v="{text}"/></specs><reuse id="p" href="#t" {defs(1)}/></svg>'
        else:
            # an outer definition of every name, shadowed inside the group
            xml = f"<svg><var {defs(2)}/><g {defs(1)}>{probe}</g></svg>"
        cases.append({"k": f"vr-{j}", "xml": xml, "cfg": {}, "case": c, "exp": conc(c["out"])})
    res = vlib.run_cases([{"k": x["k"], "xml": x["xml"], "cfg": x["cfg"], "trace": False} for x in cases])
    import geom
    for x in cases:
        rr = res[x["k"]]
        rep.case(x["xml"])
        car = x["case"]["carrier"]
        if rr["status"] != "ok":
            rep.violation(f"varref:{car}:{rr['status']}", {"xml": x["xml"], "err": vlib.trunc(rr.get("err")), "expected": x["exp"]})
            continue
        el = geom.find_by_id(rr["out"], "p")
        got = el.attrs.get("data-v") if el is not None else None
        if got != x["exp"]:
            rep.violation(f"varref:{car}:value", {"xml": x["xml"], "expected": x["exp"], "got": got,
                                                 "detail": "the text after substitution differs from the expansion VarRef.tla defines "
                                                           "(longest name, braces, undefined names verbatim)"})
        else:
            rep.traces += 1
    rep.bounds["varref"] = {"MaxLen": 5 if tier == "thorough" else 4, "cases": len(cases)}


def reuse_own_attrs(rep):
    """every attribute of a <reuse> is a variable for its instance - also the ones that have a
    meaning of their own on the reuse element (href, x, y) - and only for its instance"""
    import geom
    cases = []
    for j, (rattrs, shadow) in enumerate([('x="5" y="7"', ""), ('y="2"', "x"), ('x="4"', "y"), ("", "xy"), ('x="1" y="1" k="9"', "")]):
        g_open = {"": "", "x": '<g x="3">', "y": '<g y="8">', "xy": '<g x="3" y="8">'}[shadow]
        g_close = "</g>" if shadow else ""
        xml = (f'<svg><var x="OUT" y="OUT2" href="OUT3" k="K0"/><specs><rect id="t" wh="1" data-v="$x|$y|$href|$k"/></specs>'
               f'{g_open}<reuse id="p" href="#t" {rattrs}/>{g_close}<rect id="q" wh="1" data-v="$x|$y|$href|$k"/></svg>')
        want = {"x": "OUT", "y": "OUT2", "href": "#t", "k": "K0"}
        if "x" in shadow:
            want["x"] = "3"
        if "y" in shadow:
            want["y"] = "8"
        for m in __import__("re").finditer(r'(\w+)="([^"]*)"', rattrs):
            want[m.group(1)] = m.group(2)
        cases.append({"k": f"ro-{j}", "xml": xml, "cfg": {}, "trace": False, "want": "|".join(want[n] for n in ("x", "y", "href", "k"))})
    res = vlib.run_cases([{k: v for k, v in c.items() if k != "want"} for c in cases])
    for c in cases:
        rr = res[c["k"]]
        rep.case(c["xml"])
        if rr["status"] != "ok":
            rep.violation("reuse-own-attrs:not-ok", {"xml": c["xml"], "err": vlib.trunc(rr.get("err"))})
            continue
        p_, q_ = geom.find_by_id(rr["out"], "p"), geom.find_by_id(rr["out"], "q")
        got_p = p_.attrs.get("data-v") if p_ is not None else None
        got_q = q_.attrs.get("data-v") if q_ is not None else None
        if got_p != c["want"] or got_q != "OUT|OUT2|OUT3|K0":
            rep.violation("reuse-own-attrs:value", {"xml": c["xml"], "instance_sees": got_p, "expected": c["want"], "after_it": got_q,
                                                    "expected_after": "OUT|OUT2|OUT3|K0",
                                                    "detail": "the attributes of a <reuse> (href, x, y included) are variables of its instance, and of nothing else"})
        else:
            rep.traces += 1


def replay(path):
    with open(path) as f:
        r = json.load(f)["replay"]
    res = vlib.run_cases([{"k": "replay", "xml": r["xml"], "cfg": r.get("cfg", {}), "trace": False}])
    print(json.dumps(res["replay"], indent=1)[:4000])
    return 0
