"""C11 Uniform positioning: equivalent constraints give identical geometry.

Model: spec/Geom.tla family "solve": shapes x boxes x 6x6 per-axis constraint
pairs (circle: pair x single position) x dx/dy.  TLC checks Solve(Project(box))
= box for every case.  Each case is concretised in several spellings (longhand,
every applicable shorthand, one or two values, comma or space); all spellings
must yield the same attribute map, equal to Native(shape, box), with no
shorthand or foreign geometry attribute left."""
import json
import random

import geom
import vlib
from geom import q

AX = {"x": dict(s=["x", "x1"], e=["x2"], c=["cx"]), "y": dict(s=["y", "y1"], e=["y2"], c=["cy"])}


def length_attr(shape, axis, v, rnd, force_long=False):
    if shape in ("circle",):
        return rnd.choice([("r", q(v / 2)), ("width" if axis == "x" else "height", q(v))]) if not force_long else ("r", q(v / 2))
    if shape == "ellipse":
        opts = [("rx" if axis == "x" else "ry", q(v / 2)), ("width" if axis == "x" else "height", q(v))]
        return opts[0] if force_long else rnd.choice(opts)
    return ("width" if axis == "x" else "height", q(v))


def spell(case, rnd, longhand):
    """attribute list for one spelling of the case"""
    shape = case["shape"]
    attrs = {}
    for axis, vals in (("x", case["vx"]), ("y", case["vy"])):
        for k, v in vals.items():
            if k == "l":
                n, s = length_attr(shape, axis, v, rnd, longhand)
                if shape == "circle" and n == "r" and "r" in attrs:
                    continue
                attrs[n] = s
            else:
                names = AX[axis][k]
                if shape == "line" and k == "s":
                    names = ["x1" if axis == "x" else "y1"]
                attrs[names[0] if longhand else rnd.choice(names)] = q(v)
    if case["dx"] or case["dy"]:
        attrs["dx"] = q(case["dx"])
        attrs["dy"] = q(case["dy"])
    if not longhand:
        sep = rnd.choice([" ", ",", ", "])

        def merge(a, b, name):
            if a in attrs and b in attrs and rnd.random() < 0.7:
                va, vb = attrs.pop(a), attrs.pop(b)
                attrs[name] = va if (va == vb and rnd.random() < 0.5) else f"{va}{sep}{vb}"
        if shape != "line":
            merge("x", "y", "xy")
        merge("x1", "y1", "xy1" if shape == "line" else "xy")
        merge("x2", "y2", "xy2")
        merge("cx", "cy", "cxy")
        merge("width", "height", "wh")
        if shape == "ellipse":
            merge("rx", "ry", "rxy")
        merge("dx", "dy", "dxy")
    items = list(attrs.items())
    if not longhand:
        rnd.shuffle(items)
    return " ".join(f'{k}="{v}"' for k, v in items)


def native_attrs(el):
    return {k: el.attrs[k] for k in el.attrs if k not in ("id", "class")}


def run(rep, tier, seed):
    rnd = random.Random(seed)
    rep.assumptions += ["coordinates are multiples of 1/4 user unit in a bounded grid (negative and fractional included)",
                        "the expat projection and the runner are trusted"]
    recs = geom.run_geom_family(rep, "solve", tier, ["SolveIdentity", "PartialIdentity"])
    partial = [c for c in recs if c.get("partial")]
    recs = [c for c in recs if not c.get("partial")]
    if not partial:
        raise vlib.ToolError("Geom.tla exported no partial (position-only) cases")
    run_partial(rep, partial, rnd)
    nvar = 4 if tier == "quick" else 8
    outs = {}
    # the grid in quarters of a user unit (exact in binary), then in fifths (decimal fractions
    # that are not: 16.2 - 6.2 is 9.999999 or 10.000001 before it is written as 10)
    for unit, share in ((0.25, 1), (0.2, 3 if tier == "quick" else 1), (0.1, 0)):
        geom.UNIT = unit
        cases = []
        for j, c in enumerate(recs):
            big = max(abs(v) for v in c["exp"].values()) >= 50
            # (the boxes on multiples of ten are always taken on the decimal grids; the grid of
            # tenths takes only those)
            if not (big and unit != 0.25) and (share == 0 or j % share):
                continue
            for v in range(nvar):
                r2 = random.Random(rnd.random())
                a = spell(c, r2, longhand=(v == 0))
                xml = f'<svg><{c["shape"]} id="s" {a}/></svg>'
                cases.append({"k": f"c11-{unit}-{j}-{v}", "xml": xml, "case": {k: c[k] for k in ("shape", "px", "py", "vx", "vy", "dx", "dy", "exp")},
                              "key": f"{unit}-{j}-{a}", "grp": (unit, j)})
        run_unit(rep, cases, outs)
    geom.UNIT = 0.25
    rep.notes["rule"] = ("cases enumerated by TLC (Geom.tla SolveCases): shape x box x constraint pair per axis x dx/dy; "
                         f"{nvar} spellings each, on a grid of quarters and of fifths; distinct = distinct attribute text")
    rep.notes["exhaustive"] = True
    rep.bounds["solve"] = {"cases": len(recs), "spellings_per_case": nvar}


def run_partial(rep, recs, rnd):
    """position-only shapes: every way of writing the delta must move what is given, identically"""
    geom.UNIT = 0.25
    cases = []
    for j, c in enumerate(recs):
        base = " ".join(f'{a}="{q(v)}"' for a, v in sorted(c["at"].items()))
        dx, dy = q(c["dx"]), q(c["dy"])
        sp = [f'dx="{dx}" dy="{dy}"', f'dy="{dy}" dx="{dx}"', f'dxy="{dx} {dy}"', f'dxy="{dx},{dy}"', f'dxy="{dx}, {dy}"']
        if c["dy"] == 0:
            sp.append(f'dx="{dx}"')
        if c["dx"] == 0:
            sp.append(f'dy="{dy}"')
        if c["dx"] == c["dy"]:
            sp.append(f'dxy="{dx}"')
        for v, d in enumerate(sp):
            a = rnd.choice([f"{base} {d}", f"{d} {base}"])
            cases.append({"k": f"c11p-{j}-{v}", "xml": f'<svg><{c["shape"]} id="s" {a}/></svg>',
                          "case": {k: c[k] for k in ("shape", "at", "dx", "dy", "exp")}, "key": f"p-{j}-{a}"})

    def check(c, resp):
        if resp["status"] != "ok":
            return ("solve:partial-not-ok", f"transform failed: {resp.get('err')}")
        el = geom.find_by_id(resp["out"], "s")
        if el is None:
            return ("solve:missing", "shape not in output")
        bad = geom.residue(el)
        if bad:
            return ("solve:residue", f"attributes left behind: {bad}")
        for a, v in c["case"]["exp"].items():
            try:
                got = float(el.attrs.get(a, "nan"))
            except ValueError:
                got = float("nan")
            if not abs(got - v * geom.UNIT) < 1e-3:
                return ("solve:partial-delta", f"{a} should be {v * geom.UNIT} (moved by the delta) but the output has {native_attrs(el)}")
        return None
    geom.run_and_compare(rep, cases, check, "c11")
    rep.bounds["partial"] = {"cases": len(recs), "spellings": len(cases)}


def run_unit(rep, cases, outs):

    def check(c, resp):
        if resp["status"] != "ok":
            return ("solve:not-ok", f"transform failed: {resp.get('err')}")
        el = geom.find_by_id(resp["out"], "s")
        if el is None:
            return ("solve:missing", "shape not in output")
        bad = geom.residue(el)
        if bad:
            return ("solve:residue", f"attributes left behind: {bad}")
        if not geom.box_close(geom.el_bbox(el), c["case"]["exp"]):
            return ("solve:geometry", f"attributes {native_attrs(el)} do not describe the box {c['case']['exp']} (quarter units)")
        first = outs.setdefault(c["grp"], (native_attrs(el), c["xml"]))
        if first[0] != native_attrs(el):
            return ("solve:spelling-differs", f"{first[1]} gives {first[0]} but this spelling gives {native_attrs(el)}")
        return None
    geom.run_and_compare(rep, cases, check, "c11")


def replay(path):
    with open(path) as f:
        r = json.load(f)["replay"]
    res = vlib.run_cases([{"k": "replay", "xml": r["xml"], "cfg": r.get("cfg", {})}])
    print(json.dumps(res["replay"], indent=1)[:4000])
    return 0
