"""C12 Containment: surround encloses, inside is enclosed.

Model: spec/Geom.tla family "contain": Union / Inter / Grow / Shrink with
1-4 value TRBL margins (absolute, percent of the documented base, negative),
the enclosure predicate EnclosesSq.  TLC checks the identities (union
encloses every box, a sqrt(2)-ellipse circumscribes, intersection is
enclosed).  Replay: rect containers must equal the predicted box exactly;
circle / ellipse containers are judged by the enclosure predicate evaluated on
the OUTPUT numbers; surround / inside / margin must not appear in the output."""
import json
import math
import random

import geom
import vlib
from geom import q

KINDS = ["rect", "ellipse", "line", "g"]


def margin_str(m):
    return " ".join((f"{v}%" if k == "pct" else q(v)) for k, v in m)


def concretise(c, rnd, late=False):
    ids = ["a", "b", "d", "e", "f"]
    els = []
    anchor = '<point id="zz" xy="0 0"/>' if late else ""
    for i, b in enumerate(c["refs"]):
        rk = c["refkinds"]
        if rk == "mixed":
            rk = KINDS[(i + rnd.randrange(4)) % 4]
        if rk in ("circle",) and (b["x2"] - b["x1"]) != (b["y2"] - b["y1"]):
            rk = "ellipse"
        if rk == "nested":
            base = geom.ref_element(rnd.choice(["rect", "line"]), b, "h" + ids[i], rnd)
            own = f'<rect id="{ids[i]}" surround="#h{ids[i]}"/>'
            els.append(base + own if rnd.random() < 0.5 else own + base)
            continue
        if late and rk in ("rect", "ellipse", "circle", "line"):
            # placed against an anchor that is written at the very end: when the container is
            # reached this element is registered but has no position yet - the container waits
            x1, y1, x2, y2 = b["x1"], b["y1"], b["x2"], b["y2"]
            if rk == "rect":
                els.append(f'<rect id="{ids[i]}" xy="#zz@c {q(x1)} {q(y1)}" wh="{q(x2 - x1)} {q(y2 - y1)}"/>')
            elif rk == "line":
                els.append(f'<line id="{ids[i]}" xy1="#zz@c {q(x1)} {q(y1)}" xy2="#zz@c {q(x2)} {q(y2)}"/>')
            elif rk == "circle":
                els.append(f'<circle id="{ids[i]}" cxy="#zz@c {q((x1 + x2) / 2)} {q((y1 + y2) / 2)}" r="{q((x2 - x1) / 2)}"/>')
            else:
                els.append(f'<ellipse id="{ids[i]}" cxy="#zz@c {q((x1 + x2) / 2)} {q((y1 + y2) / 2)}" rxy="{q((x2 - x1) / 2)} {q((y2 - y1) / 2)}"/>')
            continue
        els.append(geom.ref_element(rk, b, ids[i], rnd))
    refs = rnd.choice([" ", ", "]).join("#" + ids[i] for i in range(len(c["refs"])))
    m = f' margin="{margin_str(c["margin"])}"' if c["margin"] else ""
    me = f'<{c["kind"]} id="s" {c["mode"].split("-")[0]}="{refs}"{m}/>'
    if rnd.random() < 0.5:
        return "<svg>" + "".join(els) + me + anchor + "</svg>"
    return "<svg>" + me + "".join(els) + anchor + "</svg>"      # forward references


def ellipse_of(el):
    a = el.attrs
    if el.name == "circle":
        return float(a.get("cx", 0)), float(a.get("cy", 0)), float(a["r"]), float(a["r"])
    return float(a.get("cx", 0)), float(a.get("cy", 0)), float(a["rx"]), float(a["ry"])


def corner_values(e, box):
    cx, cy, rx, ry = e
    return [((x - cx) / rx) ** 2 + ((y - cy) / ry) ** 2 for x in (box[0], box[2]) for y in (box[1], box[3])]


def run(rep, tier, seed):
    rnd = random.Random(seed)
    rep.assumptions += ["'inside' lists are restricted to combinations the statement defines unambiguously (rect/circle/ellipse inside rects; rect inside one circle/ellipse)",
                        "cases whose margin makes the box degenerate (non-positive extent) are skipped"]
    recs = geom.run_geom_family(rep, "contain", tier, ["ContainIdentities"])
    cases = []
    for j, c in enumerate(recs):
        e = c["exp"]
        if c["mode"] != "inside-disjoint" and (e["x2"] - e["x1"] <= 0 or e["y2"] - e["y1"] <= 0):
            continue
        xml = concretise(c, random.Random(rnd.random()))
        cases.append({"k": f"c12-{j}", "xml": xml, "case": c, "key": xml})
        # the same with every listed element still waiting for its position when the container is reached
        if c["refkinds"] in ("circle", "ellipse") or j % 3 == 0:
            xml = concretise(c, random.Random(rnd.random()), late=True)
            cases.append({"k": f"c12-{j}-late", "xml": xml, "case": c, "key": xml})

    def check(c, resp):
        cs = c["case"]
        mode = cs["mode"]
        if mode == "inside-disjoint":
            # no common area: only "the containment attributes never appear in the output" is claimed
            if resp["status"] != "ok":
                return None
            el = geom.find_by_id(resp["out"], "s")
            bad = geom.residue(el) if el is not None else []
            return ("contain:inside:residue", f"attributes left behind: {bad}") if bad else None
        if resp["status"] != "ok":
            return (f"contain:{mode}:not-ok", f"transform failed: {resp.get('err')}")
        el = geom.find_by_id(resp["out"], "s")
        if el is None:
            return (f"contain:{mode}:missing", "container not in output")
        bad = geom.residue(el)
        if bad:
            return (f"contain:{mode}:residue", f"attributes left behind: {bad}")
        e = cs["exp"]
        E = (e["x1"] / 4, e["y1"] / 4, e["x2"] / 4, e["y2"] / 4)
        ecx, ecy = (E[0] + E[2]) / 2, (E[1] + E[3]) / 2
        if mode == "surround":
            if el.name == "rect":
                if not geom.box_close(geom.el_bbox(el), e):
                    return ("contain:surround:rect", f"rect {dict(el.attrs)} is not the grown union {E}")
                return None
            ell = ellipse_of(el)
            if abs(ell[0] - ecx) > 0.002 or abs(ell[1] - ecy) > 0.002:
                return ("contain:surround:centre", f"{el.name} {dict(el.attrs)} not centred on the box {E}")
            vals = corner_values(ell, E)
            if max(vals) > 1.01:
                return ("contain:surround:encloses", f"{el.name} {dict(el.attrs)} does not enclose the box {E} (corner values {vals})")
            # tight (through the corners) for an ellipse, and for a circle around a
            # square box; a circle around an oblong box need only enclose it without
            # being larger than the circle around the bounding square
            square = abs((E[2] - E[0]) - (E[3] - E[1])) < 1e-6
            if max(vals) < (0.98 if (el.name == "ellipse" or square) else 0.49):
                return ("contain:surround:circumscribes", f"{el.name} {dict(el.attrs)} is not tight around the box {E} (corner values {vals})")
            return None
        # inside
        if cs["refkinds"] == "rect":
            if el.name == "rect":
                if not geom.box_close(geom.el_bbox(el), e):
                    return ("contain:inside:rect", f"rect {dict(el.attrs)} is not the shrunk intersection {E}")
                return None
            bb = geom.el_bbox(el)
            if bb is None or bb[0] < E[0] - 0.002 or bb[1] < E[1] - 0.002 or bb[2] > E[2] + 0.002 or bb[3] > E[3] + 0.002:
                return ("contain:inside:enclosed", f"{el.name} {dict(el.attrs)} is not within {E}")
            if abs((bb[0] + bb[2]) / 2 - ecx) > 0.002 or abs((bb[1] + bb[3]) / 2 - ecy) > 0.002:
                return ("contain:inside:centre", f"{el.name} {dict(el.attrs)} not centred in {E}")
            return None
        # rect inside one circle / ellipse whose bounding box is E
        bb = geom.el_bbox(el)
        if bb is None:
            return ("contain:inside:nobox", str(dict(el.attrs)))
        w, h = E[2] - E[0], E[3] - E[1]
        if cs["refkinds"] == "circle" and abs(w - h) > 1e-6:
            return None
        vals = corner_values((ecx, ecy, w / 2, h / 2), bb)
        if max(vals) > 1.01:
            return ("contain:inside:within-shape", f"rect {dict(el.attrs)} pokes out of the {cs['refkinds']} with box {E}")
        return None
    geom.run_and_compare(rep, cases, check, "c12")
    # "surround, inside and margin never appear in the output": also where a margin stands alone
    lone = []
    for j, (kind, size) in enumerate([("rect", 'wh="5 3"'), ("circle", 'r="2"'), ("ellipse", 'rxy="3 2"'), ("rect", 'xy="1 1" wh="2"'), ("line", 'xy1="0 0" xy2="3 3"')]):
        for m in ("2", "10%", "1 2 3 4", "-1"):
            xml = f'<svg><{kind} id="s" {size} margin="{m}"/></svg>'
            lone.append({"k": f"c12m-{j}-{m}", "xml": xml, "case": {"mode": "margin-alone", "kind": kind}, "key": xml})

    def check_lone(c, resp):
        if resp["status"] != "ok":
            return ("contain:margin-alone:not-ok", f"transform failed: {resp.get('err')}")
        el = geom.find_by_id(resp["out"], "s")
        if el is None or "margin" in el.attrs:
            return ("contain:margin-alone:residue", f"margin left in the output: {dict(el.attrs) if el is not None else None}")
        return None
    geom.run_and_compare(rep, lone, check_lone, "c12m")
    rep.notes["rule"] = "cases enumerated by TLC (Geom.tla ContainCases): reference lists x container kind x margin form"
    rep.notes["exhaustive"] = True


def replay(path):
    with open(path) as f:
        r = json.load(f)["replay"]
    res = vlib.run_cases([{"k": "replay", "xml": r["xml"], "cfg": r.get("cfg", {})}])
    print(json.dumps(res["replay"], indent=1)[:4000])
    return 0
