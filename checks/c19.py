"""C19 Shape text reaches the output verbatim and at the requested anchor.

Model: spec/Text.tla family "lines" (strings over the XML-significant
alphabet with literal newlines, the two-character \\n escape and its escaped
form \\\\n, x 4 carriers; Lines(s) = the lines the author wrote) and invariant
WellFormed (Unesc(ser) = s: escaped exactly once); spec/Geom.tla family
"textpos" (TextAnchor / AlignClasses over shapes x 9 locations x inside /
outside x vertical x offset / dx / dy) with its identities.  Replay: the
character data of the generated <text>/<tspan> elements, decoded by expat,
equals the predicted lines; the anchor and alignment classes equal the
prediction; the shape keeps its geometry and loses the text attributes."""
import json
import random

import geom
import textc
import vlib
from checks.c02 import text_family
from geom import q

ZWSP = "​"


def carrier_doc(carrier, s, rnd):
    v = textc.conc(s)
    if carrier == "text-attr":
        return f'<svg><rect id="s" xy="2 3" wh="30 20" text="{textc.esc_attr(v)}"/></svg>'
    if carrier == "content":
        return f'<svg><rect id="s" xy="2 3" wh="30 20">{textc.esc_text(v)}</rect></svg>'
    if carrier == "cdata-content":
        if "]]>" in v:
            return None
        return f'<svg><rect id="s" xy="2 3" wh="30 20"><![CDATA[{v}]]></rect></svg>'
    if carrier == "mixed-content":
        # character data and CDATA sections side by side: one text, in order
        if "]]>" in v or len(v) < 2:
            return None
        k = 1 + rnd.randrange(len(v) - 1)
        a, b = v[:k], v[k:]
        if not a.strip() or not b.strip():
            return None
        return f'<svg><rect id="s" xy="2 3" wh="30 20">{textc.esc_text(a)}<![CDATA[{b}]]></rect></svg>'
    if carrier == "text-element":
        return f'<svg><text id="s" xy="2 3">{textc.esc_text(v)}</text></svg>'
    raise ValueError(carrier)


def text_lines(out):
    """lines of character data of the generated text in an output document"""
    root = vlib.parse_xml(out)
    texts = [e for e in vlib.elements(root) if e.name == "text"]
    if not texts:
        return None
    t = texts[-1]
    spans = [c for c in t.children if c.kind == "el" and c.name == "tspan"]
    if spans:
        return [sp.text_content() for sp in spans], t
    return [t.text_content()], t


def norm_lines(lines, lenient_ws):
    out = [x for l in lines for x in l.replace(ZWSP, "").split("\n")]
    while len(out) > 1 and out[-1] == "":
        out.pop()
    if lenient_ws:
        out = [l.strip() for l in out]
        while len(out) > 1 and out[0] == "":
            out.pop(0)
    return out


def run(rep, tier, seed):
    rnd = random.Random(seed)
    big = tier == "thorough"
    rep.assumptions += ["an empty line may be rendered as a zero-width space; one trailing empty line may be dropped",
                        "for element-content carriers leading / trailing whitespace of a line is not compared (XML indentation)",
                        "strings consisting of whitespace only are not text"]
    maxlen = 3 if big else 2
    recs = text_family(rep, "lines", ["LinesOK"], maxlen)
    cases = []
    for j, c in enumerate(recs):
        v = textc.conc(c["s"])
        if not v.strip():
            continue
        xml = carrier_doc(c["carrier"], c["s"], rnd)
        if xml is None:
            continue
        cases.append({"k": f"c19-{j}", "xml": xml, "cfg": {}, "case": c})
    res = vlib.run_cases([{"k": c["k"], "xml": c["xml"], "cfg": c["cfg"]} for c in cases])
    for i, c in enumerate(cases):
        r = res[c["k"]]
        cs = c["case"]
        rep.case(c["xml"])
        car = cs["carrier"]
        if r["status"] != "ok":
            rep.violation(f"text:{car}:{r['status']}", {"case": cs, "xml": c["xml"], "err": vlib.trunc(r.get("err"))})
            continue
        try:
            tl = text_lines(r["out"])
        except vlib.XmlError as e:
            rep.violation(f"text:{car}:not-wellformed", {"case": cs, "xml": c["xml"], "out": vlib.trunc(r["out"], 2000), "detail": str(e)})
            continue
        if tl is None:
            rep.violation(f"text:{car}:missing", {"case": cs, "xml": c["xml"], "out": vlib.trunc(geom.strip_style(r["out"]), 2000)})
            continue
        lenient = car != "text-attr"
        got = norm_lines(tl[0], lenient)
        exp = norm_lines([textc.conc(l) for l in cs["lines"]], lenient)
        if len(exp) == 1 and len(got) == 1 and len(cs["lines"]) == 2 and cs["lines"][1] == []:
            # one line followed by a newline: blanks before that newline fall to the writer's
            # blank-trimming (the normalisation C03 lists as a finding for real SVG); not compared
            got, exp = [got[0].rstrip()], [exp[0].rstrip()]
        if got != exp:
            rep.violation(f"text:{car}:chars", {"case": cs, "xml": c["xml"], "out": vlib.trunc(geom.strip_style(r["out"]), 2000),
                                               "detail": f"character data of the generated text {got!r} differs from the author's lines {exp!r}"})
        else:
            rep.traces += 1
        if i % 499 == 0:
            rep.sample({"carrier": car, "xml": c["xml"]})

    # placement
    precs = geom.run_geom_family(rep, "textpos", tier, ["TextPosIdentities"])
    if not big and len(precs) > 2400:
        named = [x for x in precs if x["okind"] == "none"]
        edge = [x for x in precs if x["okind"] != "none"]
        precs = rnd.sample(named, min(len(named), 1500)) + rnd.sample(edge, min(len(edge), 900))
    pcases = []
    for j, c in enumerate(precs):
        b = c["box"]
        sh = c["shape"]
        ref = geom.ref_element(sh, b, "s")
        cls = []
        if c["side"] != "default":
            cls.append("d-text-" + c["side"])
        if c["vert"]:
            cls.append("d-text-vertical")
        cls.append("d-fill-red")
        tloc = c["loc"]
        if c["okind"] != "none":
            tloc += ":" + (f'{c["eoff"]}%' if c["okind"] == "pct" else q(c["eoff"]))
        extra = f' text="Label" text-loc="{tloc}" class="{" ".join(cls)}"'
        if c["off"]:
            extra += f' text-offset="{q(c["off"])}"'
        if c["dx"] or c["dy"]:
            # text-dx / text-dy replace the matching component of text-dxy
            extra += rnd.choice([f' text-dx="{q(c["dx"])}" text-dy="{q(c["dy"])}"', f' text-dxy="{q(c["dx"])} {q(c["dy"])}"',
                                 f' text-dxy="99 {q(c["dy"])}" text-dx="{q(c["dx"])}"', f' text-dy="{q(c["dy"])}" text-dxy="{q(c["dx"])} -77"'])
        xml = "<svg>" + ref.replace("/>", extra + "/>", 1) + "</svg>"
        pcases.append({"k": f"c19p-{j}", "xml": xml, "case": c, "key": xml})

    def check(c, resp):
        cs = c["case"]
        if resp["status"] != "ok":
            return ("textpos:not-ok", resp.get("err"))
        root = vlib.parse_xml(resp["out"])
        shape = None
        text = None
        for e in vlib.elements(root):
            if e.attrs.get("id") == "s":
                shape = e
            if e.name == "text":
                text = e
        if shape is None or text is None:
            return ("textpos:missing", "shape or text missing")
        ex, ey = cs["exp"][0] / 4, cs["exp"][1] / 4
        x, y = vlib.fnum(text.attrs.get("x", "")), vlib.fnum(text.attrs.get("y", ""))
        if x is None or y is None or abs(x - ex) > 0.0015 or abs(y - ey) > 0.0015:
            return ("textpos:anchor", f"text at ({text.attrs.get('x')}, {text.attrs.get('y')}), reference rules give ({ex}, {ey})")
        missing = [k for k in cs["classes"] if k not in text.classes()]
        if missing:
            return ("textpos:classes", f"text classes {text.classes()} lack {missing}")
        if text.text_content() != "Label":
            return ("textpos:chars", text.text_content())
        bad = [k for k in shape.attrs if k.startswith("text")] + [k for k in shape.classes() if k.startswith("d-text")]
        if bad:
            return ("textpos:shape-residue", f"text-specific attributes / classes left on the shape: {bad}")
        if not geom.box_close(geom.el_bbox(shape), cs["box"]):
            return ("textpos:shape-changed", f"shape geometry changed: {dict(shape.attrs)}")
        if "d-fill-red" not in shape.classes():
            return ("textpos:shape-class-lost", str(shape.classes()))
        return None
    geom.run_and_compare(rep, pcases, check, "c19p")
    # multi-line layout
    lrecs = geom.run_geom_family(rep, "textlines", tier, [])
    lcases = []
    for j, c in enumerate(lrecs):
        ref = geom.ref_element(c["shape"], c["box"], "s")
        cls = ["d-text-" + c["side"]] if c["side"] != "default" else []
        text = rnd.choice(["\\n", "&#10;"]).join(f"L{i + 1}" for i in range(c["n"]))
        extra = f' text="{text}" text-loc="{c["loc"]}"' + (f' class="{" ".join(cls)}"' if cls else "")
        if c["lsp"]:
            extra += f' text-lsp="{c["lsp"] / 1000:g}"'
        xml = "<svg>" + ref.replace("/>", extra + "/>", 1) + "</svg>"
        lcases.append({"k": f"c19l-{j}", "xml": xml, "case": c, "key": xml})

    # the same layouts with a <text> element as the carrier (it is its own anchor): the lines, the step between
    # them, and nothing of the text-specific vocabulary left on the element
    for j, c in enumerate(lrecs):
        if c["shape"] != "rect" or c["side"] != "default" or c["loc"] not in ("c", "t", "br"):
            continue
        text = rnd.choice(["\\n", "&#10;"]).join(f"L{i + 1}" for i in range(c["n"]))
        extra = (f' text-lsp="{c["lsp"] / 1000:g}"' if c["lsp"] else "") + rnd.choice(["", ' text-style="fill:red"'])
        form = rnd.randrange(2)
        xml = (f'<svg><text id="s" xy="2 3"{extra} text="{text}"/></svg>' if form or "&#10;" in text else
               f'<svg><text id="s" xy="2 3"{extra}>{text}</text></svg>')
        lcases.append({"k": f"c19lt-{j}", "xml": xml, "case": dict(c, carrier="text", anchor=[8, 12]), "key": xml})

    # ... and placed with a length on one axis only (no box can be computed): the axis that is given keeps its
    # length, the other is what SVG takes it to be, 0
    for j, (ax, val) in enumerate([(a, v) for a in ("x", "y") for v in ("10%", "2em", "1.5cm", "-3mm")]):
        for n in (1, 2, 3):
            text = "\\n".join(f"L{i + 1}" for i in range(n))
            xml = f'<svg><rect wh="4"/><text id="s" {ax}="{val}" text="{text}"/></svg>'
            lcases.append({"k": f"c19lu-{j}-{n}", "xml": xml, "case": {"carrier": "text-unit", "axis": ax, "value": val, "n": n}, "key": xml})

    SVGDX_TEXT = {"text", "text-lsp", "text-style", "text-loc", "text-offset", "text-dx", "text-dy", "text-dxy", "xy", "cxy"}

    def lcheck(c, resp):
        cs = c["case"]
        if resp["status"] != "ok":
            return ("textlines:not-ok", resp.get("err"))
        root = vlib.parse_xml(resp["out"])
        texts = [e for e in vlib.elements(root) if e.name == "text"]
        if len(texts) != 1:
            return ("textlines:missing", f"{len(texts)} text elements")
        t = texts[0]
        left = sorted(k for k in t.attrs if k in SVGDX_TEXT)
        if left:
            return ("textlines:text-residue", f"text-specific attributes left on the output <text>: {left}")
        if cs.get("carrier") == "text-unit":
            other = "y" if cs["axis"] == "x" else "x"
            if t.attrs.get(cs["axis"]) != cs["value"]:
                return ("textlines:unit-axis", f"{cs['axis']}={cs['value']!r} became {t.attrs.get(cs['axis'])!r}")
            if vlib.fnum(t.attrs.get(other, "0")) != 0:
                return ("textlines:unit-other-axis", f"{other} was not given and is {t.attrs.get(other)!r} in the output, not 0")
            lines = [sp.text_content() for sp in t.children if sp.kind == "el" and sp.name == "tspan"] if cs["n"] > 1 else [t.text_content()]
            if lines != [f"L{i + 1}" for i in range(cs["n"])]:
                return ("textlines:lines", f"lines {lines}")
            return None
        if cs.get("carrier") == "text":
            spans = [e for e in t.children if e.kind == "el" and e.name == "tspan"]
            if [sp.text_content() for sp in spans] != [f"L{i + 1}" for i in range(cs["n"])]:
                return ("textlines:lines", f"tspans {[sp.text_content() for sp in spans]}")
            x, y = vlib.fnum(t.attrs.get("x", "")), vlib.fnum(t.attrs.get("y", ""))
            if x is None or y is None or abs(x - 2) > 0.0015 or abs(y - 3) > 0.0015:
                return ("textlines:anchor", f"text at ({t.attrs.get('x')}, {t.attrs.get('y')}), written at (2, 3)")
            for sp in spans[1:]:
                d = sp.attrs.get("dy", "")
                v = vlib.fnum(d[:-2]) if d.endswith("em") else None
                if v is None or abs(v * 1000 - cs["step"]) > 1.5:
                    return ("textlines:dy", f"tspan dy {d!r}, the line spacing asked for is {cs['step'] / 1000} em")
            return None
        spans = [e for e in t.children if e.kind == "el" and e.name == "tspan"]
        if [sp.text_content() for sp in spans] != [f"L{i + 1}" for i in range(cs["n"])]:
            return ("textlines:lines", f"tspans {[sp.text_content() for sp in spans]}")
        ex, ey = cs["anchor"][0] / 4, cs["anchor"][1] / 4
        x, y = vlib.fnum(t.attrs.get("x", "")), vlib.fnum(t.attrs.get("y", ""))
        if x is None or y is None or abs(x - ex) > 0.0015 or abs(y - ey) > 0.0015:
            return ("textlines:anchor", f"text at ({t.attrs.get('x')}, {t.attrs.get('y')}), reference rules give ({ex}, {ey})")
        want = [cs["first"]] + [cs["step"]] * (cs["n"] - 1)
        got = []
        for sp in spans:
            d = sp.attrs.get("dy", "")
            v = vlib.fnum(d[:-2]) if d.endswith("em") else None
            got.append(None if v is None else v * 1000)
            sx = vlib.fnum(sp.attrs.get("x", ""))
            if sx is None or abs(sx - x) > 0.0015:
                return ("textlines:tspan-x", f"tspan x={sp.attrs.get('x')} differs from the text's x={t.attrs.get('x')}")
        if any(g is None or abs(g - w) > 1.5 for g, w in zip(got, want)):
            return ("textlines:dy", f"tspan dy (thousandths of an em) {got}, the layout rule gives {want}")
        return None
    geom.run_and_compare(rep, lcases, lcheck, "c19l")
    rep.notes["rule"] = "Text.tla LineCases (carrier x string) and Geom.tla TextPosCases (shape x location x side x vertical x offsets)"
    rep.notes["exhaustive"] = big
    rep.bounds["lines"] = {"MaxLen": maxlen}


def replay(path):
    with open(path) as f:
        r = json.load(f)["replay"]
    res = vlib.run_cases([{"k": "replay", "xml": r["xml"], "cfg": r.get("cfg", {})}])
    print(json.dumps(res["replay"], indent=1)[:4000])
    return 0
