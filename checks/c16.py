"""C16 Loops and conditionals render exactly what their unrolling renders.

Model: Interp.tla family "loop" (count / while / until loops, loop variables
with start/step, if, var updates, probes, '^'-relative shapes, nesting).  TLC
checks that the machine's output equals Sem.Ideal (iteration by iteration) and
Sem.Ideal also yields the mechanical unrolling of every program.  On the real
code: (a) rendered items (count, order, probe values, x positions) equal the
prediction, (b) translation validation: T(P) and T(Unroll(P)) give the same
element tree, (c) TraceStruct: iterations are counted one by one."""
import json
import random

import interp
import vlib


def run(rep, tier, seed):
    rep.assumptions += ["Unroll(P) is computed by the specification (Sem.Ideal .unr), not by the harness",
                        "loop variables take integer values in the enumerated family (dyadic fractions are covered by C14's arithmetic checks)"]
    cmp = interp.standard_compare()
    big = tier == "thorough"
    r = interp.family_check(rep, "loop", tier, seed, cmp, dict(MaxNodes=3), dict(MaxNodes=3),
                            sample_quick=3000, sample_thorough=24000, need_outcomes=("ok", "loop"))
    rnd = random.Random(seed)
    recs = [x for x in r.replay if x["ideal"] == "ok"]
    k = 20000 if big else 3000
    if len(recs) > k:
        recs = rnd.sample(recs, k)
    interp.twin_check(rep, recs, seed, "c16", "unroll")
    if big:
        # larger programs by random simulation of the same specification
        cfg = interp.mc_cfg("loop", export=True, MaxNodes=5)
        rs = vlib.run_tlc("MC_Interp", cfg, "c16sim", workers=1, simulate=4000, depth=400, seed=seed, timeout=900)
        rep.add_tlc(rs, "Interp simulation, family loop, MaxNodes=5")
        uniq = {interp.doc_key(x): x for x in rs.replay}
        interp.replay_records(rep, list(uniq.values()), seed, tier, cmp, tag="c16sim", trace_budget=40000)
        interp.twin_check(rep, list(uniq.values()), seed + 7, "c16simt", "unroll")
    rep.notes["rule"] = "every program of the loop family within MaxNodes (TLC), each with its specification-derived unrolling"
    rep.notes["exhaustive"] = not big


def replay(path):
    with open(path) as f:
        r = json.load(f)["replay"]
    cases = [{"k": "p", "xml": r["xml"], "cfg": r.get("cfg", {})}]
    if "twin_xml" in r:
        cases.append({"k": "t", "xml": r["twin_xml"], "cfg": r.get("cfg", {})})
    res = vlib.run_cases(cases)
    print(json.dumps(res, indent=1)[:6000])
    return 0
