"""C04 Standard SVG content inside svgdx documents is accepted and preserved.

Model: the SVG 1.1 micro-syntaxes as generative grammars - spec/Scan.tla
(path data: every token sequence the grammar derives up to MaxLen, built by
the same machine that C01 checks for progress) and spec/SvgSyntax.tla
(numbers with sign / leading dot / exponent, lengths with units and percent,
point lists, transform lists, reference forms, element vocabulary).  Replay:
each derivation is spelled out (several spellings, separators omitted where
the grammar allows) inside an svgdx-mode document; the transform must
succeed and every such element must appear in the output with the same name,
attributes and values (numbers up to the 3-decimal rounding), text and tree
position; only root attributes and injected style/defs may be added."""
import json
import random
import re

import totc
import vlib

NUM_RE = re.compile(r"^[+-]?(\d+\.?\d*|\.\d+)([eE][+-]?\d+)?$")


def spell_number(n, rnd):
    m = {"int": rnd.choice(["7", "12", "0", "3"]), "dec": rnd.choice(["1.5", "0.25", "12.75"]), "leaddot": rnd.choice([".5", ".25"]),
         "traildot": rnd.choice(["4.", "10."]), "huge": rnd.choice(["3000000000", "8000000000", "4294967296"]),
         "small": rnd.choice(["0.0004", "2.00049", "0.12345"])}[n["mant"]]
    e = {"": "", "e": "e1", "E": "E1", "e+": "e+1", "e-": "e-1"}[n["exp"]]
    return n["sign"] + m + e


ATTRS = {
    "rect-x": lambda v: f'<rect id="s" x="{v}" y="1" width="5" height="4"/>',
    "rect-width": lambda v: f'<rect id="s" x="1" y="1" width="{v}" height="4"/>',
    "circle-r": lambda v: f'<circle id="s" cx="5" cy="5" r="{v}"/>',
    "line-x2": lambda v: f'<line id="s" x1="0" y1="0" x2="{v}" y2="3"/>',
    "stroke-width": lambda v: f'<rect id="s" x="1" y="1" width="5" height="4" stroke-width="{v}"/>',
    "text-x": lambda v: f'<text id="s" x="{v}" y="3">label</text>',
    "stop-offset": lambda v: f'<defs><linearGradient id="lg"><stop id="s" offset="{v}" stop-color="red"/></linearGradient></defs><rect x="0" y="0" width="2" height="2"/>',
    "font-size": lambda v: f'<text id="s" x="1" y="3" font-size="{v}">label</text>',
    "line-end-only": lambda v: f'<line id="s" x2="{v}" y2="3"/><line x1="{v}" y2="4"/>',
    # positioned along ONE axis only: the other keeps its default
    "ellipse-cx": lambda v: f'<ellipse id="s" cx="{v}" rx="3" ry="2"/>',
    "ellipse-cy": lambda v: f'<ellipse id="s" cy="{v}" rx="3" ry="2"/>',
    "circle-cy": lambda v: f'<circle id="s" cy="{v}" r="2"/>',
    "rect-y": lambda v: f'<rect id="s" y="{v}" width="5" height="4"/>',
    "line-y1": lambda v: f'<line id="s" y1="{v}" x2="4" y2="4"/>',
    "text-x-only": lambda v: f'<text id="s" x="{v}">label</text>',
    "text-y-only": lambda v: f'<text id="s" y="{v}">label</text>',
    "use-x": lambda v: f'<rect id="t" x="0" y="0" width="3" height="3"/><use id="s" href="#t" x="{v}" y="2"/>',
}
# fully specified shapes: (attribute, plain value) in the order written; "solo" cases replace exactly one value
SOLO = {"line": [("x1", "1"), ("y1", "2"), ("x2", "6"), ("y2", "4")],
        "rect": [("x", "1"), ("y", "2"), ("width", "6"), ("height", "4"), ("rx", "1"), ("ry", "0.5")],
        "circle": [("cx", "5"), ("cy", "4"), ("r", "3")],
        "ellipse": [("cx", "5"), ("cy", "4"), ("rx", "3"), ("ry", "2")],
        "text": [("x", "2"), ("y", "3")],
        "use": [("href", "#t"), ("x", "2"), ("y", "3")],
        "image": [("href", "pic.png"), ("x", "1"), ("y", "2"), ("width", "6"), ("height", "4")]}
SIZE_ATTRS = {"width", "height", "r", "rx", "ry"}
ATTR_NAME = {"ellipse-cx": "cx", "ellipse-cy": "cy", "circle-cy": "cy", "rect-y": "y", "line-y1": "y1", "line-end-only": "x2", "use-x": "x", "root-width": "width",
             "rect-x": "x", "rect-width": "width", "circle-r": "r", "line-x2": "x2", "stroke-width": "stroke-width", "text-x": "x",
             "stop-offset": "offset", "font-size": "font-size"}


def func_text(f, asep, rnd):
    args = {"translate1": ["10"], "translate2": ["10", "-5"], "scale1": ["2"], "scale2": ["2", "0.5"], "rotate1": ["45"],
            "rotate3": ["45", "10", "10"], "skewX": ["10"], "skewY": ["-10"], "matrix": ["1", "0", "0", "1", "5", "5"]}[f]
    name = f.rstrip("123")
    return f"{name}({asep.join(args)})"


def func_text2(f, c):
    """transform function text for a TransformCases record (argument separators incl. 'sign', blanks)"""
    args = {"translate1": ["10"], "translate2": ["10", "-5"], "scale1": ["2"], "scale2": ["2", "-0.5"], "rotate1": ["45"],
            "rotate3": ["45", "-10", "-10"], "skewX": ["10"], "skewY": ["-10"], "matrix": ["1", "-0", "-0", "1", "-5", "-5"]}[f]
    name = f.rstrip("123")
    if c["asep"] == "sign":
        inner = "".join(a if (i == 0 or a.startswith("-")) else " " + a for i, a in enumerate(args))
    else:
        inner = c["asep"].join(args)
    if c["wsp"] == "before":
        return f"{name} ({inner})"
    if c["wsp"] == "inside":
        return f"{name}( {inner} )"
    return f"{name}({inner})"


VOCAB = [
    '<rect x="1" y="2" width="30" height="20" rx="2" ry="3" fill="none" stroke="blue" stroke-dasharray="1 2" opacity="0.5"/>',
    '<circle cx="5" cy="6" r="4" fill="#f00"/><ellipse cx="10" cy="10" rx="4" ry="2" transform="rotate(10)"/>',
    '<line x1="0" y1="0" x2="10" y2="10" stroke="black" stroke-width="2" stroke-linecap="round"/>',
    '<polyline points="0,0 5,5 10,0" fill="none"/><polygon points="0 0 4 0 2 3"/>',
    '<path d="M0 0 C 1 2 3 4 5 6 S 7 8 9 10 Q 1 1 2 2 T 4 4 A 5 5 0 0 1 10 10 Z" fill="none"/>',
    '<text x="1" y="2" font-family="serif" font-size="4" text-anchor="middle">plain <tspan dy="1em" font-weight="bold">bold</tspan> tail</text>',
    '<g id="grp" transform="translate(5,5)" opacity="0.8"><rect x="0" y="0" width="3" height="3"/><g><circle cx="1" cy="1" r="1"/></g></g>',
    '<defs><linearGradient id="lg" x1="0" y1="0" x2="1" y2="1" gradientUnits="objectBoundingBox"><stop offset="0" stop-color="red"/><stop offset="100%" stop-color="blue" stop-opacity="0.5"/></linearGradient></defs><rect x="0" y="0" width="10" height="10" fill="url(#lg)"/>',
    '<defs><radialGradient id="rg" cx="50%" cy="50%" r="50%" fx="30%" fy="30%"><stop offset="0.1" stop-color="#fff"/><stop offset="0.9" stop-color="#000"/></radialGradient></defs><circle cx="5" cy="5" r="5" fill="url(#rg)"/>',
    '<defs><marker id="mk" markerWidth="4" markerHeight="4" refX="2" refY="2" orient="auto"><path d="M0 0 L4 2 L0 4 z"/></marker></defs><line x1="0" y1="0" x2="10" y2="0" marker-end="url(#mk)" stroke="black"/>',
    '<defs><filter id="f1" x="-10%" y="-10%" width="120%" height="120%"><feGaussianBlur in="SourceGraphic" stdDeviation="1.5"/><feOffset dx="1" dy="1" result="o"/><feMerge><feMergeNode in="o"/><feMergeNode in="SourceGraphic"/></feMerge></filter></defs><rect x="1" y="1" width="8" height="8" filter="url(#f1)"/>',
    '<defs><clipPath id="cp"><rect x="0" y="0" width="5" height="5"/></clipPath></defs><circle cx="5" cy="5" r="5" clip-path="url(#cp)"/>',
    '<defs><mask id="mk2"><rect x="0" y="0" width="10" height="10" fill="white"/></mask></defs><rect x="0" y="0" width="10" height="10" mask="url(#mk2)"/>',
    '<defs><pattern id="pt" x="0" y="0" width="4" height="4" patternUnits="userSpaceOnUse"><circle cx="2" cy="2" r="1"/></pattern></defs><rect x="0" y="0" width="20" height="20" fill="url(#pt)"/>',
    '<rect id="tgt" x="0" y="0" width="4" height="4"/><use href="#tgt" x="10" y="0"/>',
    '<symbol id="sym" viewBox="0 0 10 10"><circle cx="5" cy="5" r="4"/></symbol><use href="#sym" x="0" y="0" width="10" height="10"/>',
    '<image x="0" y="0" width="10" height="10" href="pic.png" preserveAspectRatio="xMidYMid meet"/>',
    '<a href="https://example.org/?a=1&amp;b=2" target="_blank"><rect x="0" y="0" width="5" height="5"/></a>',
    '<foreignObject x="0" y="0" width="20" height="10"><div xmlns="http://www.w3.org/1999/xhtml"><p>html &amp; more</p></div></foreignObject>',
    '<style>.k { fill: red; stroke: #00f; } rect &gt; circle { opacity: .5 }</style><rect class="k" x="0" y="0" width="5" height="5"/>',
    '<title>A title &lt;1&gt;</title><desc>Description text</desc><rect x="0" y="0" width="5" height="5"><title>tip</title></rect>',
    '<rect x="0" y="0" width="5" height="5"><animate attributeName="x" from="0" to="10" dur="2s" repeatCount="indefinite"/></rect>',
    '<switch><g systemLanguage="en"><rect x="0" y="0" width="5" height="5"/></g><rect x="0" y="0" width="2" height="2"/></switch>',
    '<rect x="10%" y="5mm" width="50%" height="2cm"/><circle cx="1in" cy="12pt" r="1pc"/><line x1="1em" y1="2ex" x2="30px" y2="0"/>',
    '<text x="1" y="2">Hello<!-- note --> World</text><rect x="0" y="0" width="3" height="3"><!-- only a comment --></rect>',
    '<text x="1" y="2">a<tspan>b</tspan><!-- c -->d<tspan dx="1">e</tspan></text><g><!-- first --><rect x="0" y="0" width="1" height="1"/><!-- last --></g>',
    '<defs><filter id="f2"><feOffset dx="2" dy="3" result="o"/><feFlood flood-color="red"/><feComposite in2="o" operator="in"/></filter></defs><rect x="0" y="0" width="4" height="4" filter="url(#f2)"/>',
    '<text x="1" y="2" dx="1 2 3" dy="0.5" rotate="10">spaced</text><text x="1" y="9"><tspan x="1" dy="1.2em" dx="2">line</tspan></text>',
    '<defs><text id="tr" x="0" y="0">referenced</text></defs><text x="1" y="2"><tref href="#tr" dx="1 2" dy="0.5em"/></text>',
    '<text x="1" y="2"><altGlyph dx="1,2 3" dy="1" glyphRef="g1">x</altGlyph> tail</text>',
    '<defs><filter id="f3"><feDropShadow dx="0.2" dy="0.4" stdDeviation="0.2"/></filter></defs><rect x="0" y="0" width="4" height="4" filter="url(#f3)"/>',
]


def numbers_equal(a, b):
    """attribute values equal, comparing embedded numbers up to the output rounding"""
    if a == b:
        return True
    ta = re.findall(r"[+-]?(?:\d+\.?\d*|\.\d+)(?:[eE][+-]?\d+)?|[^\d+\-.eE]+|.", a)
    tb = re.findall(r"[+-]?(?:\d+\.?\d*|\.\d+)(?:[eE][+-]?\d+)?|[^\d+\-.eE]+|.", b)
    if len(ta) != len(tb):
        return False
    for x, y in zip(ta, tb):
        if x == y:
            continue
        try:
            fx, fy = float(x), float(y)
        except ValueError:
            return False
        if abs(fx - fy) > 0.0015 + 1e-5 * abs(fx):
            return False
    return True


def preserved(inp, out):
    """None if every element of the input tree appears in the output tree at the same
    position with the same attributes / text; else a description."""
    ti = vlib.parse_fragment(inp)
    to = vlib.parse_fragment(out)

    def kids(n, is_root_svg=False):
        ks = []
        for c in n.children:
            if c.kind == "el":
                ks.append(c)
            elif c.kind in ("text", "cdata") and c.text.strip():
                ks.append(c)
        return ks

    def strip_injected(ks):
        # injected <defs>/<style> blocks come first under the root
        res = list(ks)
        while res and res[0].kind == "el" and res[0].name in ("defs", "style") and getattr(res[0], "_injected", True) is True and \
                ("stroke-linecap" in res[0].text_content() or res[0].name == "defs" and len(res) > 1 and res[1].kind == "el" and res[1].name == "style" and "stroke-linecap" in res[1].text_content()):
            res.pop(0)
        return res

    def walk(a, b, path, root):
        ka, kb = kids(a), kids(b)
        if root:
            kb = strip_injected(kb)
        if len(ka) != len(kb):
            return f"{path}: {len(ka)} children in the input, {len(kb)} in the output ({[getattr(k, 'name', '#text') for k in kb]})"
        for i, (x, y) in enumerate(zip(ka, kb)):
            p = f"{path}/{getattr(x, 'name', '#text')}[{i}]"
            if x.kind != y.kind:
                return f"{p}: node kind changed"
            if x.kind != "el":
                if x.text.strip() != y.text.strip():
                    return f"{p}: text {x.text!r} became {y.text!r}"
                continue
            if x.name != y.name:
                return f"{p}: element became <{y.name}>"
            for k, v in x.attrs.items():
                if k not in y.attrs:
                    return f"{p}: attribute {k}={v!r} lost"
                if not numbers_equal(v, y.attrs[k]):
                    return f"{p}: attribute {k}={v!r} became {y.attrs[k]!r}"
            extra = [k for k in y.attrs if k not in x.attrs]
            if x.name == "text" and "class" in extra and all(t.startswith("d-text") for t in y.attrs["class"].split()):
                # the documented reinterpretation: character content of <text> is re-emitted as generated text
                extra.remove("class")
            if x.name == "text":
                # a position the author left out may be written out as what SVG takes it to be: 0
                extra = [k for k in extra if not (k in ("x", "y") and numbers_equal("0", y.attrs[k]))]
            if x.name == "svg" and root:
                extra = [k for k in extra if k not in ("version", "xmlns", "width", "height", "viewBox")]
            if extra:
                return f"{p}: attributes added: { {k: y.attrs[k] for k in extra} }"
            r = walk(x, y, p, root and x.name == "svg" and path == "")
            if r:
                return r
        return None
    return walk(ti, to, "", True)


def run(rep, tier, seed):
    rnd = random.Random(seed)
    big = tier == "thorough"
    rep.assumptions += ["'plain SVG' excludes values that are svgdx syntax by definition (#, ^, $, {{ in geometry attributes) and the documented reinterpretation of character-only content of shapes / <text>",
                        "path bounding boxes for curves and arcs are documented as incomplete: only acceptance and preservation are asserted"]
    cases = []
    # path data: every derivation of the grammar up to MaxLen tokens
    ml = 11 if big else 9
    cfg = vlib.cfg_text(spec="GenSpec", constants={"Family": "gen", "MaxLen": ml, "Deviations": set()}, invariants=["Export"])
    r = vlib.run_tlc("MC_Scan", cfg, "c04-gen", workers=8, timeout=1500, keep_stdout=True)
    if not r.ok:
        raise vlib.ToolError(f"Scan.tla GenSpec: {r.violated}")
    rep.add_tlc(r, f"Scan.tla generative path grammar up to {ml} tokens")
    gens = [x for x in r.replay if x["result"] == "ok"]
    if not big and len(gens) > 2500:
        gens = rnd.sample(gens, 2500)
    for j, g in enumerate(gens):
        for v in range(3 if big else 2):
            d = totc.path_string(g["toks"], random.Random(rnd.random()))
            cases.append({"k": f"c04p-{j}-{v}", "xml": f'<svg><rect x="0" y="0" width="1" height="1"/><path id="s" d="{d}" fill="none"/></svg>',
                          "what": "path", "case": g})
    # the other micro-syntaxes
    fam_cases = {}
    for fam in ("number", "points", "transform", "ref", "use", "vocab"):
        cfg = vlib.cfg_text(constants={"Family": fam, "Tier": tier}, invariants=["Derivable", "Export"])
        rr = vlib.run_tlc("MC_SvgSyntax", cfg, "c04-" + fam, workers=4, timeout=600, keep_stdout=True)
        if not rr.ok:
            raise vlib.ToolError(f"SvgSyntax.tla {fam}: {rr.violated}")
        rep.add_tlc(rr, f"SvgSyntax.tla family {fam}")
        fam_cases[fam] = rr.replay
    for j, c in enumerate(fam_cases["number"]):
        v = spell_number(c["num"], rnd) + c["unit"]
        if c["attr"] in ("rect-width", "circle-r") and (c["num"]["sign"] == "-"):
            continue   # negative sizes are errors in SVG itself
        if c["attr"] == "stop-offset" and c["unit"] not in ("", "%"):
            continue
        if c["attr"] in ("root-width", "line-end-only") and c["num"]["sign"] == "-":
            continue
        if c["attr"] == "root-width":
            if c["unit"] == "%" or c["num"]["mant"] in ("huge", "small"):
                continue    # a percentage has no aspect ratio to derive the other dimension from in our units
            dim = "width" if j % 2 else "height"
            cases.append({"k": f"c04n-{j}", "xml": f'<svg {dim}="{v}"><rect id="s" x="0" y="0" width="6" height="3"/></svg>',
                          "what": "number:root-width", "case": c, "value": v})
            continue
        if c["attr"].startswith("solo:"):
            _, el, an = c["attr"].split(":")
            if an in SIZE_ATTRS and c["num"]["sign"] == "-":
                continue   # negative sizes are errors in SVG itself
            if c["num"]["mant"] == "huge":
                continue
            at = " ".join(f'{k}="{v if k == an else pv}"' for k, pv in SOLO[el])
            inner = {"text": "label"}.get(el)
            body = f'<{el} id="s" {at}>{inner}</{el}>' if inner else f'<{el} id="s" {at}/>'
            if el == "use":
                body = '<rect id="t" x="0" y="0" width="3" height="3"/>' + body
            cases.append({"k": f"c04n-{j}", "xml": "<svg>" + body + "</svg>", "what": "number:" + c["attr"], "case": c, "value": v})
            continue
        cases.append({"k": f"c04n-{j}", "xml": "<svg>" + ATTRS[c["attr"]](v) + "</svg>", "what": "number:" + c["attr"], "case": c, "value": v})
    for j, c in enumerate(fam_cases["points"]):
        nums = {"int": ["0", "10", "5", "3"], "dec": ["0.5", "1.25", "10.5", "2.75"], "neg": ["-1", "-2.5", "-10", "-3"], "exp": ["1e1", "2e0", "5E-1", "1.5e1"]}[c["num"]]
        pts = []
        for i in range(c["n"]):
            a, b = nums[i % 4], nums[(i + 1) % 4]
            if c["pairsep"] == "sign":
                b = "-" + b.lstrip("-")
                pts.append(a + b)
            else:
                pts.append(a + c["pairsep"] + b)
        ptsep = c["pointsep"]
        if c["pairsep"] == "," and ptsep == ",":
            ptsep = ", "
        cases.append({"k": f"c04q-{j}", "xml": f'<svg><{c["shape"]} id="s" points="{ptsep.join(pts)}" fill="none"/></svg>', "what": "points", "case": c})
    for j, c in enumerate(fam_cases["transform"]):
        t = c["fsep"].join(func_text2(f, c) for f in c["funcs"])
        el = {"g": f'<g id="s" transform="{t}"><rect x="0" y="0" width="4" height="4"/></g>',
              "rect": f'<rect id="s" x="0" y="0" width="4" height="4" transform="{t}"/>',
              "path": f'<path id="s" d="M0 0 L4 4" transform="{t}"/>',
              "text": f'<text id="s" x="1" y="1" transform="{t}">t</text>'}[c["el"]]
        cases.append({"k": f"c04t-{j}", "xml": f"<svg>{el}</svg>", "what": "transform", "case": c})
    REF = {"use-href": '<use id="s" href="#t" x="5" y="5"/>', "use-xlink": '<use id="s" xlink:href="#t" x="5" y="5"/>',
           "fill-url": '<rect id="s" x="0" y="0" width="4" height="4" fill="url(#t)"/>', "stroke-url": '<rect id="s" x="0" y="0" width="4" height="4" stroke="url(#t)"/>',
           "clip-path": '<rect id="s" x="0" y="0" width="4" height="4" clip-path="url(#t)"/>', "marker-end": '<line id="s" x1="0" y1="0" x2="4" y2="4" marker-end="url(#t)"/>',
           "filter": '<rect id="s" x="0" y="0" width="4" height="4" filter="url(#t)"/>', "mask": '<rect id="s" x="0" y="0" width="4" height="4" mask="url(#t)"/>',
           "textpath-href": '<text id="s"><textPath href="#t">along</textPath></text>', "a-href": '<a id="s" href="#t"><rect x="0" y="0" width="2" height="2"/></a>',
           "image-href": '<image id="s" x="0" y="0" width="4" height="4" href="#t"/>',
           "use-external": '<use id="s" href="other.svg#part" x="5" y="5"/>',
           "use-external-xlink": '<use id="s" xlink:href="http://example.org/lib.svg#part"/>',
           "clip-path-none": '<rect id="s" x="0" y="0" width="4" height="4" clip-path="none"/>',
           "clip-path-quoted": '<rect id="s" x="0" y="0" width="4" height="4" clip-path="url(&apos;#t&apos;)"/>',
           "clip-path-dquoted": "<rect id='s' x='0' y='0' width='4' height='4' clip-path='url(\"#t\")'/>",
           "clip-path-spaced": '<rect id="s" x="0" y="0" width="4" height="4" clip-path="url( #t )"/>',
           "clip-path-shape": '<rect id="s" x="0" y="0" width="4" height="4" clip-path="circle(40%)"/>',
           "clip-path-external": '<rect id="s" x="0" y="0" width="4" height="4" clip-path="url(shapes.svg#c)"/>',
           "fill-url-quoted": '<rect id="s" x="0" y="0" width="4" height="4" fill="url(&apos;#t&apos;)"/>'}
    TGT = {"use-href": '<rect id="t" x="0" y="0" width="3" height="3"/>', "use-xlink": '<rect id="t" x="0" y="0" width="3" height="3"/>',
           "fill-url": '<defs><linearGradient id="t"><stop offset="0" stop-color="red"/></linearGradient></defs>',
           "stroke-url": '<defs><linearGradient id="t"><stop offset="0" stop-color="red"/></linearGradient></defs>',
           "clip-path": '<defs><clipPath id="t"><rect x="0" y="0" width="2" height="2"/></clipPath></defs>',
           "marker-end": '<defs><marker id="t" markerWidth="2" markerHeight="2"><path d="M0 0 L2 1 L0 2z"/></marker></defs>',
           "filter": '<defs><filter id="t"><feGaussianBlur stdDeviation="1"/></filter></defs>', "mask": '<defs><mask id="t"><rect x="0" y="0" width="4" height="4" fill="white"/></mask></defs>',
           "use-external": "", "use-external-xlink": "", "clip-path-none": "", "clip-path-shape": "", "clip-path-external": "",
           "clip-path-quoted": '<defs><clipPath id="t"><rect x="0" y="0" width="2" height="2"/></clipPath></defs>',
           "clip-path-dquoted": '<defs><clipPath id="t"><rect x="0" y="0" width="2" height="2"/></clipPath></defs>',
           "clip-path-spaced": '<defs><clipPath id="t"><rect x="0" y="0" width="2" height="2"/></clipPath></defs>',
           "fill-url-quoted": '<defs><linearGradient id="t"><stop offset="0" stop-color="red"/></linearGradient></defs>',
           "textpath-href": '<defs><path id="t" d="M0 0 L10 0"/></defs>', "a-href": '<rect id="t" x="9" y="9" width="1" height="1"/>', "image-href": '<rect id="t" x="9" y="9" width="1" height="1"/>'}
    for j, c in enumerate(fam_cases["ref"]):
        root = '<svg xmlns:xlink="http://www.w3.org/1999/xlink">' if c["form"] in ("use-xlink", "use-external-xlink") else "<svg>"
        body = (TGT[c["form"]] + REF[c["form"]]) if c["target"] == "before" else (REF[c["form"]] + TGT[c["form"]])
        cases.append({"k": f"c04r-{j}", "xml": root + body + "</svg>", "what": "ref:" + c["form"], "case": c})
    UTGT = {"rect0": '<rect id="t" x="0" y="0" width="3" height="3"/>', "rect-off": '<rect id="t" x="3" y="4" width="3" height="2"/>',
            "circle0": '<circle id="t" r="5"/>', "circle-off": '<circle id="t" cx="5" cy="6" r="5"/>',
            "ellipse-off": '<ellipse id="t" cx="4" cy="2" rx="4" ry="2"/>', "line": '<line id="t" x1="1" y1="2" x2="5" y2="2"/>',
            "g": '<g id="t"><rect x="1" y="1" width="2" height="2"/><circle cx="5" cy="5" r="1"/></g>',
            "symbol": '<symbol id="t"><rect x="0" y="0" width="2" height="2"/></symbol>', "path": '<path id="t" d="M1 1 L5 1 L5 4 z"/>',
            "text": '<text id="t" x="1" y="2">label</text>'}
    UATTR = {"xy": ' x="30" y="7"', "x": ' x="30"', "y": ' y="7"', "none": "", "neg": ' x="-2.5" y="-40"'}
    for j, c in enumerate(fam_cases["use"]):
        href = "href" if c["form"] == "href" else "xlink:href"
        root = '<svg xmlns:xlink="http://www.w3.org/1999/xlink">' if c["form"] == "xlink" else "<svg>"
        use = f'<use id="s" {href}="#t"{UATTR[c["attrs"]]}/>'
        tgt = UTGT[c["tkind"]]
        if c["tkind"] == "symbol" and c["where"] != "defs":
            tgt = tgt      # a symbol renders nothing wherever it stands
        body = {"before": tgt + use, "after": use + tgt, "defs": f"<defs>{tgt}</defs>" + use}[c["where"]]
        cases.append({"k": f"c04u-{j}", "xml": root + body + "</svg>", "what": "use:" + c["tkind"], "case": c})
    for j, c in enumerate(fam_cases["vocab"]):
        sn = VOCAB[c["snippet"] - 1]
        xml = {"svg": f"<svg>{sn}</svg>", "svg-g": f'<svg><g id="outer">{sn}</g></svg>', "fragment": sn,
               "svg-attrs": f'<svg id="top" class="q r" style="background: #eee" data-k="1" preserveAspectRatio="xMidYMid">{sn}</svg>'}[c["wrap"]]
        cases.append({"k": f"c04v-{j}", "xml": xml, "what": f"vocab:{c['snippet']}", "case": c})
    res = vlib.run_cases([{"k": c["k"], "xml": c["xml"], "cfg": {}} for c in cases])
    for i, c in enumerate(cases):
        rr = res[c["k"]]
        rep.case(c["xml"])
        what = c["what"].split(":")[0]
        if rr["status"] != "ok":
            rep.violation(f"svg:{c['what']}:{'rejected' if rr['status'] == 'err' else rr['status']}",
                          {"what": c["what"], "xml": c["xml"], "err": vlib.trunc(rr.get("err"), 600), "case": c["case"],
                           "detail": "plain SVG content made the transform fail"})
            continue
        try:
            why = preserved(c["xml"], rr["out"])
        except vlib.XmlError as e:
            why = f"output not well-formed: {e}"
        if why:
            rep.violation(f"svg:{c['what']}:not-preserved", {"what": c["what"], "xml": c["xml"], "out": vlib.trunc(rr["out"], 2500), "detail": why,
                                                             "case": c["case"]})
        else:
            rep.traces += 1
        if i % 1501 == 0:
            rep.sample({"what": c["what"], "xml": c["xml"]})
    kinds = {}
    for c in cases:
        k = c["what"].split(":")[0]
        kinds[k] = kinds.get(k, 0) + 1
    rep.notes["cases_by_grammar"] = kinds
    rep.notes["rule"] = "derivations enumerated by TLC (Scan.tla GenSpec, SvgSyntax.tla) spelled out in svgdx-mode documents; distinct = distinct document"
    rep.notes["exhaustive"] = big


def replay(path):
    with open(path) as f:
        r = json.load(f)["replay"]
    res = vlib.run_cases([{"k": "replay", "xml": r["xml"], "cfg": {}}])
    print(json.dumps(res["replay"], indent=1)[:4000])
    return 0
