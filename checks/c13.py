"""C13 Connectors start and end on the referenced elements.

Model: spec/Geom.tla family "conn": for every arrangement of two boxes (all
nine sectors, overlapping, nested, touching, identical) x endpoint forms x
connector kinds, the set of candidate location pairs of MINIMAL squared
distance (integers, exact).  TLC checks that every such endpoint lies on its
element's bounding box.  Replay: the connector's endpoints in the output must
be one of the minimal pairs (ties: any), named locations / literal points are
used verbatim, h / v lines are axis-parallel through the middle of the
overlap, corner polylines are rectilinear and leave / enter perpendicular to
the chosen edges; start / end / edge-type / corner-offset never appear."""
import json
import re
import random

import geom
import vlib
from geom import q


def pt(p):
    return (p[0] / 4, p[1] / 4)


def concretise(c, rnd):
    def as_use(box, id_):
        # the element is an instance (<use>) of a shape kept in <defs>, moved into place by x / y
        w, h = box["x2"] - box["x1"], box["y2"] - box["y1"]
        return (f'<defs><rect id="t{id_}" x="0" y="0" width="{q(w)}" height="{q(h)}"/></defs>'
                f'<use id="{id_}" href="#t{id_}" x="{q(box["x1"])}" y="{q(box["y1"])}"/>')
    ak = rnd.choice(["rect", "rect", "circle", "box", "use"])
    a = as_use(c["a"], "a") if ak == "use" else geom.ref_element(ak, c["a"], "a")
    bk = rnd.choice(["rect", "ellipse", "circle", "line", "use"])
    b = as_use(c["b"], "b") if bk == "use" else geom.ref_element(bk, c["b"], "b", rnd)
    f = c["form"]
    ct = c["ctype"]
    name = "polyline" if ct == "corner" else "line"
    extra = ""
    if ct in ("h", "v"):
        extra = f' edge-type="{ct}"'
    if f == "auto" or f == "hv":
        st, en = "#a", "#b"
    elif f == "oneloc":
        st, en = f'#a@{c["sloc"]}', "#b"
    elif f == "bothloc":
        st, en = f'#a@{c["sloc"]}', f'#b@{c["eloc"]}'
    elif f == "edge":
        off = f'{c["off"]}%' if c["okind"] == "pct" else q(c["off"])
        st, en = f'#a@{c["edge"]}:{off}', f'#b@{c["eloc"]}'
    elif f == "point":
        st, en = f'{q(c["pt"][0])} {q(c["pt"][1])}', "#b"
    if ct == "corner":
        dirs = {(p[2], p[3]) for p in c["pairs"]}
        opposite = all((s, e) in (("l", "r"), ("r", "l"), ("t", "b"), ("b", "t")) for s, e in dirs)
        r = rnd.random()
        if r < 0.25:
            extra += ' corner-offset="2"'
        elif r < 0.45 and opposite:
            extra += ' corner-offset="25%"'
        elif r < 0.65 and opposite:
            extra += ' corner-offset="-1"'
    if ct != "corner" and rnd.random() < 0.3:
        extra += ' corner-offset="2"'      # means nothing for a straight connector, and must not be left behind either
    conn = f'<{name} id="s" start="{st}" end="{en}"{extra}/>'
    if rnd.random() < 0.3:
        return f"<svg>{conn}{a}{b}</svg>"
    return f"<svg>{a}{b}{conn}</svg>"


def points_of(el):
    if el.name == "line":
        a = el.attrs
        return [(float(a["x1"]), float(a["y1"])), (float(a["x2"]), float(a["y2"]))]
    if el.name == "polyline":
        nums = [float(x) for x in el.attrs["points"].replace(",", " ").split()]
        return list(zip(nums[0::2], nums[1::2]))
    return None


def close(p, r):
    return abs(p[0] - r[0]) <= 0.0015 and abs(p[1] - r[1]) <= 0.0015


def run(rep, tier, seed):
    rnd = random.Random(seed)
    rep.assumptions += ["h / v connectors only between boxes whose projections overlap (otherwise the statement defines nothing)",
                        "percent corner-offset only on Z-shaped routes"]
    recs = geom.run_geom_family(rep, "conn", tier, ["ConnIdentities"])
    cases = []
    nv = 2 if tier == "quick" else 4
    for j, c in enumerate(recs):
        for v in range(nv):
            xml = concretise(c, random.Random(rnd.random()))
            cases.append({"k": f"c13-{j}-{v}", "xml": xml, "case": c, "key": xml})

    def check(c, resp):
        cs = c["case"]
        form = cs["form"] + ":" + cs["ctype"]
        if resp["status"] != "ok":
            return (f"conn:{form}:not-ok", f"transform failed: {resp.get('err')}")
        el = geom.find_by_id(resp["out"], "s")
        if el is None:
            return (f"conn:{form}:missing", "connector not in output")
        bad = [k for k in el.attrs if k in ("start", "end", "edge-type", "corner-offset")]
        if bad:
            return (f"conn:{form}:residue", f"attributes left behind: {bad}")
        pts = points_of(el)
        if not pts or len(pts) < 2:
            return (f"conn:{form}:shape", f"unexpected element {el.name} {dict(el.attrs)}")
        p1, p2 = pts[0], pts[-1]
        if cs["form"] == "hv":
            mid = cs["mid"] / 4
            xs = {(pt(p[0])[0], pt(p[1])[0]) for p in cs["pairs"]} if cs["ctype"] == "h" else \
                 {(pt(p[0])[1], pt(p[1])[1]) for p in cs["pairs"]}
            if cs["ctype"] == "h":
                ok = abs(p1[1] - mid) <= 0.0015 and abs(p2[1] - mid) <= 0.0015 and \
                    any(abs(p1[0] - a) <= 0.0015 and abs(p2[0] - b) <= 0.0015 for a, b in xs)
            else:
                ok = abs(p1[0] - mid) <= 0.0015 and abs(p2[0] - mid) <= 0.0015 and \
                    any(abs(p1[1] - a) <= 0.0015 and abs(p2[1] - b) <= 0.0015 for a, b in xs)
            if not ok:
                return (f"conn:{form}:geometry", f"line {pts} is not the axis-parallel line through the middle of the overlap "
                                                 f"({mid}) between minimal edge locations {sorted(xs)}")
            return None
        match = [p for p in cs["pairs"] if close(p1, pt(p[0])) and close(p2, pt(p[1]))]
        if not match:
            return (f"conn:{form}:endpoints", f"endpoints {p1} -> {p2} are not among the minimal-distance candidate pairs "
                                              f"{[(pt(p[0]), pt(p[1]), p[2], p[3]) for p in cs['pairs']]}")
        if cs["ctype"] == "corner":
            for (x1, y1), (x2, y2) in zip(pts, pts[1:]):
                if abs(x1 - x2) > 0.0015 and abs(y1 - y2) > 0.0015:
                    return (f"conn:{form}:rectilinear", f"segment {(x1, y1)}-{(x2, y2)} of {pts} is not axis-parallel")
            if len(pts) > 2:
                ok_any = False
                for m in match:
                    sl, el_ = m[2], m[3]
                    first_h = abs(pts[0][1] - pts[1][1]) <= 0.0015
                    first_v = abs(pts[0][0] - pts[1][0]) <= 0.0015
                    last_h = abs(pts[-1][1] - pts[-2][1]) <= 0.0015
                    last_v = abs(pts[-1][0] - pts[-2][0]) <= 0.0015
                    s_ok = (first_h if sl in ("l", "r") else first_v) if sl in ("l", "r", "t", "b") else True
                    e_ok = (last_h if el_ in ("l", "r") else last_v) if el_ in ("l", "r", "t", "b") else True
                    ok_any = ok_any or (s_ok and e_ok)
                if not ok_any:
                    return (f"conn:{form}:perpendicular", f"polyline {pts} does not leave/enter perpendicular to the chosen edges {[(m[2], m[3]) for m in match]}")
                # leaving means away from the start element, entering means towards the end
                # element from outside (judged only when the two boxes are apart)
                a_, b_ = cs["a"], cs["b"]
                apart = a_["x2"] < b_["x1"] or b_["x2"] < a_["x1"] or a_["y2"] < b_["y1"] or b_["y2"] < a_["y1"]
                zshape = all((m[2], m[3]) in (("l", "r"), ("r", "l"), ("t", "b"), ("b", "t")) for m in match)
                # (with author-named edges there may be no outward way in: judged for automatically chosen edges)
                # (an absolute corner-offset is taken literally and may exceed the gap between facing
                # edges, which is the author's choice: not judged then)
                mo = re.search(r'corner-offset="(-?[0-9.]+)"', c["xml"])
                overshoot = False
                if mo:
                    v = abs(float(mo.group(1)))
                    for m in match:
                        if (m[2], m[3]) in (("l", "r"), ("r", "l")):
                            overshoot = overshoot or v > abs(m[0][0] - m[1][0]) / 4 + 1e-9
                        elif (m[2], m[3]) in (("t", "b"), ("b", "t")):
                            overshoot = overshoot or v > abs(m[0][1] - m[1][1]) / 4 + 1e-9
                # a U-shaped route (the same edge named at both ends) always has an outward way:
                # out beyond both elements, whatever their arrangement
                ushape = cs["form"] == "bothloc" and cs["sloc"] == cs["eloc"]
                if ((apart and cs["form"] == "auto") or ushape) and not overshoot:
                    def outward(loc, p_edge, p_other):
                        dx, dy = p_other[0] - p_edge[0], p_other[1] - p_edge[1]
                        return {"r": dx >= -0.0015, "l": dx <= 0.0015, "b": dy >= -0.0015, "t": dy <= 0.0015}.get(loc, True)
                    if not any(outward(m[2], pts[0], pts[1]) and outward(m[3], pts[-1], pts[-2]) for m in match):
                        return (f"conn:{form}:direction", f"polyline {pts} leaves / enters through the inside of an element (edges {[(m[2], m[3]) for m in match]})")
        return None
    geom.run_and_compare(rep, cases, check, "c13")
    forms = {}
    for c in recs:
        k = c["form"] + ":" + c["ctype"]
        forms[k] = forms.get(k, 0) + 1
    rep.notes["forms"] = forms
    rep.notes["rule"] = "cases enumerated by TLC (Geom.tla ConnCases): box arrangement x endpoint form x connector kind; oracle = set of minimal pairs"
    rep.notes["exhaustive"] = True


def replay(path):
    with open(path) as f:
        r = json.load(f)["replay"]
    res = vlib.run_cases([{"k": "replay", "xml": r["xml"], "cfg": r.get("cfg", {})}])
    print(json.dumps(res["replay"], indent=1)[:4000])
    return 0
