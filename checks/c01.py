"""C01 Totality: every input gives a result or an error, never a crash or a hang.

Model: termination and progress of the designs - spec/Scan.tla (every scanner
step consumes a token or ends: Progress, Linear, Terminates, for all token
sequences up to MaxLen; deviation ZStutter as negative control), spec/Interp.tla
(Finishes under weak fairness: retry passes shrink, loops and recursion are
bounded by the limits), spec/Totality.tla (the outcome set {ok, err} for
Construct x DepthClass and XML token sequences x non-UTF-8 positions).
Replay: every scanner sequence, every (construct, depth), every lexical
sequence and a seeded byte-mutation corpus is run in a worker process with a
watchdog and memory limit: the outcome must be ok or err - a panic, an abort
(stack exhaustion), a hang or a missing `end` event is a violation.  Traces
are validated against TraceStruct.tla (scanner index strictly increases,
retry passes never grow, transform ends with a clean probe).  A sample also
goes through the svgdx command and the server endpoint."""
import glob
import json
import os
import random
import shutil

import frontc
import interp
import totc
import vlib


def tlc_family(rep, module, constants, invariants, tag, spec="Spec", properties=(), constraint=None, timeout=900):
    cfg = vlib.cfg_text(spec=spec, constants=constants, invariants=list(invariants), properties=list(properties), constraint=constraint)
    r = vlib.run_tlc(module, cfg, tag, workers=8, timeout=timeout, keep_stdout=True)
    return r


def classify(resp):
    st = resp["status"]
    if st in ("ok", "err"):
        return st
    return st      # panic / abort / hang


def crash_sig(resp):
    msg = (resp.get("err") or "")[:60]
    import re
    msg = re.sub(r"[^A-Za-z ]+", " ", msg).strip().replace(" ", "-")[:40]
    return f"{resp['status']}:{msg}" if resp["status"] == "panic" else resp["status"]


def tlaps_proof(module, deps):
    """Check a TLAPS proof in a scratch copy; returns a summary string.  A failing proof is
    a specification error (exit 2); a missing prover is recorded, not an error."""
    import os
    import re
    import shutil
    import subprocess
    if not shutil.which("tlapm"):
        return "tlapm not installed: proof not re-checked"
    wd = vlib.workdir("tlaps")
    for m in [module] + deps:
        shutil.copy(os.path.join(vlib.SPEC, m + ".tla"), wd)
    try:
        p = subprocess.run(["timeout", "600", "tlapm", "--threads", "8", module + ".tla"], cwd=wd, stdout=subprocess.PIPE,
                           stderr=subprocess.STDOUT, text=True)
    finally:
        out = locals().get("p").stdout if locals().get("p") else ""
        shutil.rmtree(wd, ignore_errors=True)
    m = re.search(r"All (\d+) obligations proved", out)
    if not m:
        raise vlib.ToolError(f"TLAPS proof {module} failed:\n" + out[-1500:])
    return f"{module}.tla: all {m.group(1)} obligations proved (Spec => [](Linear /\\ Bounded) for input of any length)"


def run(rep, tier, seed):
    rnd = random.Random(seed)
    big = tier == "thorough"
    rep.assumptions += ["raw bytes are sampled (seeded mutation of generated and example documents), structure is exhausted within bounds",
                        "a watchdog of 20 s per small document (120 s for the 100000-fold constructs) decides 'hang'; memory limit 4 GiB",
                        "worker thread stack = 8 MiB (a main thread's); the server's 2 MiB worker stacks are exercised through the HTTP sample"]
    # ---- models ---------------------------------------------------------------
    ml = 5 if big else 4
    r = tlc_family(rep, "MC_Scan", {"Family": "path", "MaxLen": ml, "Deviations": set()}, ["Bounded", "Linear", "Export"], "c01-scan",
                   properties=["Progress", "Terminates"] if not big else ["Progress"])
    if not r.ok:
        raise vlib.ToolError(f"Scan.tla: {r.violated}: specification error")
    rep.add_tlc(r, f"Scan.tla all token-class sequences up to {ml}: Progress, Linear, Bounded" + ("" if big else ", Terminates"))
    scan_recs = r.replay
    rn = tlc_family(rep, "MC_Scan", {"Family": "path", "MaxLen": 5, "Deviations": {"ZStutter"}}, ["Bounded"], "c01-scanneg",
                    properties=["Progress"], constraint="StepLimit")
    rep.notes.setdefault("negative_controls", []).append({"deviation": "ZStutter", "violated": rn.violated})
    if rn.violated != "Progress":
        raise vlib.ToolError("negative control ZStutter did not violate Progress")
    # the same statements for token sequences of ANY length: TLAPS proof (spec/ScanProof.tla)
    proved = tlaps_proof("ScanProof", ["Scan"])
    rep.notes["tlaps"] = proved
    rl = vlib.run_tlc("MC_Interp", interp.mc_cfg("loop", liveness=True, MaxNodes=2), "c01-live", workers=8, timeout=900, keep_stdout=False)
    if not rl.ok:
        raise vlib.ToolError(f"Interp.tla Finishes: {rl.violated}")
    rep.add_tlc(rl, "Interp.tla family loop: Finishes (termination under weak fairness)")
    rd = tlc_family(rep, "MC_Totality", {"Family": "depth", "Tier": tier}, ["Total", "Export"], "c01-depth")
    rx = tlc_family(rep, "MC_Totality", {"Family": "lex", "Tier": tier}, ["Total", "Export"], "c01-lex")
    re_ = tlc_family(rep, "MC_Totality", {"Family": "exprlex", "Tier": tier}, ["Total", "Export"], "c01-exprlex")
    rn_ = tlc_family(rep, "MC_Totality", {"Family": "exprnum", "Tier": tier}, ["Total", "Export"], "c01-exprnum")
    ra_ = tlc_family(rep, "MC_Totality", {"Family": "attrlex", "Tier": tier}, ["Total", "Export"], "c01-attrlex")
    for x in (rd, rx, re_, rn_, ra_):
        if not x.ok:
            raise vlib.ToolError(f"Totality.tla: {x.violated}")
        rep.add_tlc(x, "Totality.tla outcome sets")
    # ---- cases ------------------------------------------------------------------
    cases = []
    # every token sequence in each lexical spelling of its numbers (first character a
    # digit, a sign, a dot) plus a free mixture: what a scanner does after a token
    # depends on the first character of the next one
    if big:
        sel = scan_recs
    else:
        # all sequences behind a complete moveto, a sample of the rest
        deep = [s for s in scan_recs if len(s["toks"]) > 3 and s["toks"][:3] == ["M", "n", "n"]]
        rest = [s for s in scan_recs if not (len(s["toks"]) > 3 and s["toks"][:3] == ["M", "n", "n"])]
        sel = deep + (rest if len(rest) <= 3000 else rnd.sample(rest, 3000))
    for j, s in enumerate(sel):
        for lc in (None, "digit", "sign", "dot"):
            if lc and not any(t == "n" for t in s["toks"]):
                continue
            d = totc.path_string(s["toks"], random.Random(rnd.random()), lexclass=lc)
            xml = f'<svg><path d="{d.replace("&", "&amp;").replace("<", "&lt;").replace(chr(34), "&quot;")}"/></svg>'
            cases.append({"k": f"scan-{j}-{lc}", "xml": xml, "cfg": {}, "trace": True, "trace_cap": 5000, "what": "scan", "allowed": ["ok", "err"]})
    for j, c in enumerate(rd.replay):
        data = totc.depth_doc(c["construct"], c["n"], quad_cap=3000 if big else 700)
        cases.append({"k": f"depth-{j}", "b64": vlib.b64(data), "cfg": {}, "what": f"depth:{c['construct']}", "n": c["n"],
                      "allowed": c["allowed"],
                      # retry-nested either returns at once or (listed finding) never: a short watchdog suffices
                      "timeout_ms": (8000 if not big else 30000) if c["construct"] in ("retry-nested", "retry-nested-ws", "retry-siblings", "retry-nested-tail") else (120000 if c["n"] >= 5000 else 30000), "trace": c["n"] <= 100, "trace_cap": 20000})
    lex = rx.replay
    if not big and len(lex) > 6000:
        lex = rnd.sample(lex, 6000)
    for j, c in enumerate(lex):
        data = totc.lex_doc(c["toks"], c["nonutf8"], c["root"])
        cases.append({"k": f"lex-{j}", "b64": vlib.b64(data), "cfg": {}, "what": f"lex:{c['nonutf8']}", "allowed": c["allowed"]})
    en = rn_.replay
    for j, c in enumerate(en):
        cases.append({"k": f"exprnum-{j}", "b64": vlib.b64(totc.exprnum_doc(c)), "cfg": {"loop_limit": 50}, "what": f"exprnum:{c['fn']}",
                      "allowed": c["allowed"], "timeout_ms": 20000})
    el = re_.replay
    if not big and len(el) > 5000:
        el = rnd.sample(el, 5000)
    for j, c in enumerate(el):
        data = totc.exprlex_doc(c["toks"], c["ctx"], random.Random(rnd.random()))
        cases.append({"k": f"exprlex-{j}", "b64": vlib.b64(data), "cfg": {"loop_limit": 20}, "what": f"exprlex:{c['ctx']}", "allowed": c["allowed"]})
    al = ra_.replay
    if not big and len(al) > 4000:
        # every (attribute, value class) on at least one host, the rest sampled
        rnd.shuffle(al)
        seen, first, rest = set(), [], []
        for c in al:
            key = (c["attr"], c["cls"])
            (rest if key in seen else first).append(c)
            seen.add(key)
        al = first + rest[:max(0, 4000 - len(first))]
    for j, c in enumerate(al):
        cases.append({"k": f"attrlex-{j}", "b64": vlib.b64(totc.attrlex_doc(c)), "cfg": {}, "what": f"attrlex:{c['attr']}", "allowed": c["allowed"],
                      "timeout_ms": 10000})
    # seeded byte mutation
    corpus = [open(f, "rb").read() for f in sorted(glob.glob(os.path.join(vlib.REPO, "examples", "*.xml")))]
    corpus += [totc.depth_doc(k, 3) for k in ("reuse-chain", "retry-chain", "surround-chain", "path-length", "nested-calls", "text-long", "for-list")]
    nmut = 100000 if big else 3000
    for j in range(nmut):
        data = totc.mutate(rnd.choice(corpus), rnd)
        cases.append({"k": f"mut-{j}", "b64": vlib.b64(data), "cfg": {"seed": j % 3}, "what": "mutation", "allowed": ["ok", "err"]})
    res = vlib.run_cases([{k: v for k, v in c.items() if k not in ("what", "allowed", "n")} for c in cases], timeout_ms=20000, procs=12)
    traces = []
    outcome = {}
    for i, c in enumerate(cases):
        rr = res[c["k"]]
        rep.case(c["k"] if c["what"] == "mutation" else (c.get("xml") or c["b64"]))
        cl = classify(rr)
        outcome.setdefault(c["what"].split(":")[0], {}).setdefault(cl, 0)
        outcome[c["what"].split(":")[0]][cl] += 1
        if cl not in c["allowed"]:
            kind = "crash" if cl not in ("ok", "err") else "verdict"
            sig = f"totality:{c['what']}:{crash_sig(rr) if kind == 'crash' else cl}"
            data = c.get("xml") or ""
            rep.violation(sig, {"what": c["what"], "n": c.get("n"), "input_text": vlib.trunc(data, 1500), "input_b64": vlib.trunc(c.get("b64"), 3000),
                                "cfg": c["cfg"], "outcome": cl, "allowed": c["allowed"], "err": vlib.trunc(rr.get("err"), 500), "rc": rr.get("rc"),
                                "ms": (rr.get("us") or 0) // 1000})
        else:
            rep.traces += 1
        if rr.get("trace"):
            traces.append((c["k"], rr["trace"]))
        if i % 3001 == 0:
            rep.sample({"what": c["what"], "input": vlib.trunc(c.get("xml") or c.get("b64"), 300), "outcome": cl})
    rep.notes["outcomes"] = outcome
    # slowest cases (time proportional to the work asked for)
    slow = sorted(((res[c["k"]].get("us") or 0, c["what"], c.get("n")) for c in cases), reverse=True)[:5]
    rep.notes["slowest_ms"] = [(us // 1000, w, n) for us, w, n in slow]
    # ---- traces ------------------------------------------------------------------
    rnd.shuffle(traces)
    budget, sel = 60000 if big else 25000, []
    tot = 0
    for k, t in traces:
        if tot + len(t) <= budget:
            sel.append((k, t))
            tot += len(t)
    nval, nev, rejected = vlib.validate_traces(sel, "c01")
    rep.traces += nval
    rep.notes["trace_events_validated"] = nev
    bykey = {c["k"]: c for c in cases}
    for k, matched, what in rejected:
        c = bykey[k]
        rep.violation(f"totality:{c['what']}:trace-rejected", {"what": c["what"], "input_text": vlib.trunc(c.get("xml"), 1500), "matched_events": matched,
                                                               "offending_event": what})
    # ---- time proportional to the work asked for: constructs whose work is linear in n must not
    # take quadratic time (judged between n = 1000 and n = 20000, only where the larger one takes seconds)
    LINEAR = {"class-many", "siblings", "siblings-text", "path-length", "points-length", "attr-long", "text-long", "comment-long",
              "binary-chain", "comma-list", "for-list", "entity-like", "transform-list", "bearing-length", "defaults-many"}
    times = {}
    for c in cases:
        if c["what"].startswith("depth:") and c.get("n") in (1000, 20000) and res[c["k"]]["status"] in ("ok", "err"):
            times.setdefault(c["what"][6:], {})[c["n"]] = (res[c["k"]].get("us") or 0) / 1e6
    for k, t in sorted(times.items()):
        if k in LINEAR and 1000 in t and 20000 in t and t[20000] >= 2.0 and t[20000] > 150 * max(t[1000], 0.002):
            rep.violation(f"totality:depth:{k}:superlinear", {"what": "depth:" + k, "seconds_at_1000": t[1000], "seconds_at_20000": t[20000],
                                                                "detail": "twenty times the input takes more than 150 times as long: not proportional to the work asked for"})
    rep.notes["seconds_at_20000"] = {k: round(t[20000], 3) for k, t in sorted(times.items()) if 20000 in t}
    # ---- the other front-ends on a sample ------------------------------------------
    svgdx, server_bin = vlib.build_bins()
    # (inputs on which the library itself already misbehaved are reported above, not sent again)
    # (the command and the server are unoptimised builds: inputs the optimised library needs more than
    # two seconds for are left to the library run - their watchdog limit here could not tell slow from stuck)
    sample = [c for c in cases if c["what"].startswith(("depth", "lex")) and res[c["k"]]["status"] in ("ok", "err")
              and (res[c["k"]].get("us") or 0) < 2_000_000]
    rnd.shuffle(sample)
    sample = sample[: (400 if big else 80)]
    wd = vlib.workdir("c01cli")
    import base64
    import subprocess
    for c in sample[: len(sample) // 2]:
        data = base64.b64decode(c["b64"])
        rep.case("cli" + c["k"])
        try:
            p = subprocess.run([svgdx], input=data, stdout=subprocess.PIPE, stderr=subprocess.PIPE, timeout=180)
        except subprocess.TimeoutExpired:
            rep.violation(f"totality:cli:{c['what']}:hang", {"what": c["what"], "n": c.get("n"), "library_ms": (res[c["k"]].get("us") or 0) // 1000,
                                                              "detail": "the svgdx command did not finish within 180 s on an input the library handles in under 2 s",
                                                              "input_b64": vlib.trunc(c["b64"], 3000)})
            continue
        if p.returncode not in (0, 1):
            rep.violation(f"totality:cli:{c['what']}:exit-{p.returncode}", {"what": c["what"], "n": c.get("n"), "rc": p.returncode,
                                                                             "stderr": vlib.trunc(p.stderr.decode('utf-8', 'replace'), 500),
                                                                             "input_b64": vlib.trunc(c["b64"], 3000)})
        else:
            rep.traces += 1
    shutil.rmtree(wd, ignore_errors=True)
    srv = frontc.Server(server_bin)
    try:
        for c in sample[len(sample) // 2:]:
            data = base64.b64decode(c["b64"])
            if len(data) > 1_500_000:
                continue
            rep.case("srv" + c["k"])
            try:
                status, body, _ = srv.post(data, timeout=180)
            except Exception as e:
                rep.violation(f"totality:server:{c['what']}:no-response", {"what": c["what"], "n": c.get("n"), "error": str(e), "alive": srv.alive(),
                                                                         "input_b64": vlib.trunc(c["b64"], 3000)})
                if not srv.alive():
                    srv.stop()
                    srv = frontc.Server(server_bin)
                continue
            if status not in (200, 400, 413):
                rep.violation(f"totality:server:{c['what']}:http-{status}", {"what": c["what"], "n": c.get("n")})
            else:
                rep.traces += 1
        if not srv.alive():
            rep.violation("totality:server:died", {})
    finally:
        srv.stop()
    rep.notes["rule"] = ("Scan.tla token sequences, Totality.tla (construct x depth class; XML token sequences x non-UTF-8 position x root), "
                         "seeded byte mutations of examples; distinct = distinct input bytes")
    rep.notes["exhaustive"] = False


def replay(path):
    import base64
    with open(path) as f:
        r = json.load(f)["replay"]
    case = {"k": "replay", "cfg": r.get("cfg", {}), "timeout_ms": 120000}
    if r.get("input_text"):
        case["xml"] = r["input_text"]
    else:
        case["b64"] = r["input_b64"]
    res = vlib.run_cases([case], timeout_ms=120000)
    print(json.dumps({k: v for k, v in res["replay"].items() if k != "out"}, indent=1)[:3000])
    return 0
