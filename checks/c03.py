"""C03 Real SVG (namespaced root) passes through with an identical XML infoset.

Model: spec/Text.tla: the pass-through branch writes every payload so that it
decodes to the input's value (WellFormed: Unesc(ser) = s) and is idempotent;
families "wf" (payload strings over the XML-significant alphabet at every
lexical position) and "root" (prolog / child shapes).  Replay: documents
rooted at <svg xmlns="http://www.w3.org/2000/svg"> carrying the payload in an
attribute value, character data, CDATA, comment, with entity and character
references, namespaced attributes, svgdx-looking attributes, PIs and doctype,
under several configurations; and the same subtree embedded in svgdx
documents.  Oracle: expat infoset of the input = infoset of the output."""
import json
import random

import textc
import vlib
from checks.c02 import text_family, PROLOG

NS = 'xmlns="http://www.w3.org/2000/svg"'
SVGDX_LOOKING = ('<rect id="a" xy="^|h 3" wh="10 5" text="hello $x {{1+1}}"/><rect xy="#a@tr" wh="{{2*3}}" class="d-fill-red"/>'
                 '<var x="3"/><loop count="2"><circle cxy="1 1" r="$x"/></loop><reuse href="#a"/><config border="9"/>'
                 '<line start="#a" end="#a"/><rect surround="#a" margin="2"/>')


def char_refs(v, rnd):
    """Spell some special characters as numeric character references."""
    out = []
    for ch in v:
        if ch in "&<>\"'" and rnd.random() < 0.4:
            out.append("&#%d;" % ord(ch) if rnd.random() < 0.5 else "&#x%x;" % ord(ch))
        elif ch == "&":
            out.append("&amp;")
        elif ch == "<":
            out.append("&lt;")
        else:
            out.append(ch)
    return "".join(out)


def passthrough_docs(case, rnd):
    v = textc.conc(case["s"])
    k = case["kind"]
    docs = []
    if k == "attr":
        a = char_refs(v, rnd).replace('"', "&quot;").replace("\n", "&#10;")
        docs.append(f'<svg {NS}><rect width="3" height="3" data-x="{a}" text="{a}" xy="{a}"/></svg>')
        docs.append(f'<svg {NS} xmlns:xlink="http://www.w3.org/1999/xlink"><use xlink:href="#{"q"}" xml:space="preserve" '
                    f'title="{a}"/></svg>')
        # attributes the svgdx branch treats specially (class lists, style, ids, transforms)
        docs.append(f'<svg {NS} class="{a}" style="{a}"><g class="{a}" transform="{a}"><rect width="1" height="1" class="k {a} k" '
                    f'id="{a}" style="{a}"/></g></svg>')
    elif k == "text":
        t = char_refs(v, rnd).replace(">", "&gt;")
        docs.append(f'<svg {NS}><text x="1" y="2">{t}</text><rect wh="5">{t}</rect></svg>')
        docs.append(f'<svg {NS}><text>a<tspan dy="1em">{t}</tspan>{t}</text></svg>')
        if "]]>" not in v:
            docs.append(f'<svg {NS}><style><![CDATA[{v}]]></style><text><![CDATA[{v}]]></text></svg>')
    elif k == "comment":
        if "--" in v or v.endswith("-"):
            return []
        docs.append(f'<!--{v}--><svg {NS}><!--{v}--><rect width="1" height="1"/></svg><!--{v}-->')
    return docs


def norm_infoset(items, attr_nl=False, trail=False):
    """infoset with one specific difference masked: newlines in attribute values
    (attr_nl) or blanks before a newline in character data (trail)"""
    import re
    out = []
    for it in items:
        if it[0] == "el":
            attrs = tuple((k, v.replace("\n", " ").replace("\t", " ").replace("\r", " ") if attr_nl else v) for k, v in it[2])
            out.append(("el", it[1], attrs, tuple(norm_infoset(it[3], attr_nl, trail))))
        elif it[0] == "chars" and trail:
            out.append(("chars", re.sub(r"[ \t]+\n", "\n", it[1])))
        else:
            out.append(it)
    return out


def run(rep, tier, seed):
    rnd = random.Random(seed)
    big = tier == "thorough"
    rep.assumptions += ["attribute order is not part of the infoset", "expat is trusted as the independent parser"]
    maxlen = 3 if big else 2
    recs = text_family(rep, "wf", ["WellFormed", "Idempotent"], maxlen)
    seen = set()
    cases = []
    for j, c in enumerate(recs):
        key = (c["kind"], tuple(c["s"]))
        if key in seen:
            continue
        seen.add(key)
        for d, xml in enumerate(passthrough_docs(c, rnd)):
            for v in range(2):
                cfg = dict(textc.CONFIGS[(j + d + v * 5) % len(textc.CONFIGS)])
                cases.append({"k": f"c03-{j}-{d}-{v}", "xml": xml, "cfg": cfg, "case": c, "mode": "root"})
    # document shapes: prologs, svgdx-looking content, PIs
    for p, pro in PROLOG.items():
        for v in range(3):
            xml = pro + f'<svg {NS} width="10" height="10" viewBox="0 0 10 10">{SVGDX_LOOKING}<?pi data?><g><text text="t">x &amp;amp; y</text></g></svg>\n'
            cases.append({"k": f"c03p-{p}-{v}", "xml": xml, "cfg": dict(textc.CONFIGS[(v * 3) % len(textc.CONFIGS)]),
                          "case": {"fam": "root", "prolog": p}, "mode": "root"})
    # an internal DTD subset declaring an entity that the document then uses
    ent = ('<?xml version="1.0"?>\n<!DOCTYPE svg PUBLIC "-//W3C//DTD SVG 1.1//EN" "http://www.w3.org/Graphics/SVG/1.1/DTD/svg11.dtd" [\n'
           '<!ENTITY foo "bar &#38;amp; baz">\n]>\n'
           f'<svg {NS}><text a="&foo;" xy="&foo;">x &foo; y</text><rect width="1" height="1" text="&foo;"/></svg>\n')
    for v in range(3):
        cases.append({"k": f"c03ent-{v}", "xml": ent, "cfg": dict(textc.CONFIGS[(v * 3) % len(textc.CONFIGS)]),
                      "case": {"fam": "root", "prolog": "entity-subset"}, "mode": "root"})
    # namespaced subtree embedded in an svgdx document
    sub = (f'<svg {NS} width="5" height="5" xy="^|h 2" wh="$nosuch" aria-label="{{{{title}}}}" text="t" class="d-fill-red  x" data-e="{{{{1 +}}}}">'
           '<rect xy="^|h" wh="2" text="a &amp;lt; b" data-q="x &amp; &quot;y&quot;"/><text>1 &lt; 2 &amp;amp; 3</text><!-- c --></svg>')
    for pos, xml in (("first", f"<svg>{sub}<rect wh=\"3\"/></svg>"), ("later", f"<svg><rect wh=\"3\"/>{sub}</svg>"),
                     ("in-g", f"<svg><rect wh=\"3\"/><g>{sub}</g></svg>"), ("in-defs", f"<svg><rect wh=\"3\"/><defs>{sub}</defs></svg>")):
        for v in range(2):
            cases.append({"k": f"c03e-{pos}-{v}", "xml": xml, "cfg": dict(textc.CONFIGS[v * 2]), "case": {"fam": "embedded", "pos": pos},
                          "mode": "embedded", "sub": sub})
    # a namespaced <svg> written as an empty element
    esub = f'<svg {NS} width="5" wh="7" xy="^|h 2" class="a  b" text="t"/>'
    for pos, xml in (("first", f"<svg>{esub}<rect wh=\"3\"/></svg>"), ("later", f"<svg><rect wh=\"3\"/>{esub}</svg>"),
                     ("in-g", f"<svg><rect wh=\"3\"/><g>{esub}</g></svg>")):
        cases.append({"k": f"c03ee-{pos}", "xml": xml, "cfg": {}, "case": {"fam": "embedded", "pos": pos + "-empty-tag"},
                      "mode": "embedded", "sub": esub})
    # ... carrying the payloads as well: nothing inside the namespaced subtree may be normalised
    seen = set()
    wraps = [("first", "<svg>{}<rect wh=\"3\"/></svg>"), ("later", "<svg><rect wh=\"3\"/>{}</svg>"),
             ("in-g", "<svg><rect wh=\"3\"/><g>{}</g></svg>"), ("in-defs", "<svg><rect wh=\"3\"/><defs>{}</defs></svg>")]
    for j, c in enumerate(recs):
        key = (c["kind"], tuple(c["s"]))
        if key in seen:
            continue
        seen.add(key)
        if not big and len(seen) % 2:
            continue
        for d, xml in enumerate(passthrough_docs(c, rnd)):
            if f"<svg {NS}" not in xml:
                continue
            sub2 = xml.replace(f"<svg {NS}", f'<svg {NS} width="5"', 1)
            pos, w = wraps[(j + d) % len(wraps)]
            cases.append({"k": f"c03f-{j}-{d}", "xml": w.format(sub2), "cfg": dict(textc.CONFIGS[(j + d) % len(textc.CONFIGS)]),
                          "case": {"fam": "embedded", "pos": pos, "kind": None, "payload": c}, "mode": "embedded", "sub": sub2})
    res = vlib.run_cases([{"k": c["k"], "xml": c["xml"], "cfg": c["cfg"]} for c in cases])
    for i, c in enumerate(cases):
        r = res[c["k"]]
        cs = c["case"]
        rep.case(c["xml"] + json.dumps(c["cfg"], sort_keys=True))
        tag = cs.get("kind") or cs.get("fam")
        if r["status"] != "ok":
            rep.violation(f"pass:{tag}:{r['status']}", {"case": cs, "xml": c["xml"], "cfg": c["cfg"], "err": vlib.trunc(r.get("err"))})
            continue
        try:
            i_in = vlib.parse_xml(c["xml"])
        except vlib.XmlError as e:
            raise vlib.ToolError(f"generator produced malformed input: {e}: {c['xml']}")
        try:
            i_out = vlib.parse_xml(r["out"])
        except vlib.XmlError as e:
            rep.violation(f"pass:{tag}:not-wellformed", {"case": cs, "xml": c["xml"], "cfg": c["cfg"], "out": vlib.trunc(r["out"], 2000), "detail": str(e)})
            continue
        if c["mode"] == "root":
            a, b = textc.infoset(i_in), textc.infoset(i_out)
        else:
            # compare the embedded namespaced subtree only
            def find(n):
                for el in vlib.elements(n):
                    if el.name == "svg" and el.attrs.get("xmlns") and el.attrs.get("width") == "5":
                        return el
                return None
            sa, sb = find(i_in), find(i_out)
            if sb is None:
                rep.violation(f"pass:embedded:{cs['pos']}:missing", {"case": cs, "xml": c["xml"], "out": vlib.trunc(r["out"], 2000)})
                continue
            a = [("el", sa.name, tuple(sorted(sa.attrs.items())), tuple(textc.infoset(sa)))]
            b = [("el", sb.name, tuple(sorted(sb.attrs.items())), tuple(textc.infoset(sb)))]
        if a != b:
            sig = f"pass:{tag}:infoset" if c["mode"] == "root" else f"pass:embedded:{cs['pos']}:infoset"
            # two narrow, listed findings are recognised by what exactly differs
            if norm_infoset(a, attr_nl=True) == norm_infoset(b, attr_nl=True):
                sig = "pass:attr:newline-charref"
            elif norm_infoset(a, trail=True) == norm_infoset(b, trail=True):
                sig = "pass:text:trailing-space-trimmed"
            rep.violation(sig, {"case": cs, "xml": c["xml"], "cfg": c["cfg"], "out": vlib.trunc(r["out"], 2500),
                                "detail": "XML information set of the output differs from the input",
                                "in_infoset": str(a)[:1500], "out_infoset": str(b)[:1500]})
        else:
            rep.traces += 1
        if i % 997 == 0:
            rep.sample({"xml": c["xml"], "cfg": c["cfg"]})
    # the repository's own example outputs are namespaced SVG
    import glob, os
    ex = [{"k": "ex-" + os.path.basename(f), "xml": open(f, encoding="utf-8").read(), "cfg": {}}
          for f in sorted(glob.glob(os.path.join(vlib.REPO, "examples", "*.svg")))]
    res = vlib.run_cases(ex)
    for c in ex:
        r = res[c["k"]]
        rep.case(c["k"])
        if r["status"] != "ok":
            rep.violation("pass:example:" + r["status"], {"example": c["k"], "err": vlib.trunc(r.get("err"))})
            continue
        try:
            if textc.infoset(vlib.parse_xml(c["xml"])) != textc.infoset(vlib.parse_xml(r["out"])):
                rep.violation("pass:example:infoset", {"example": c["k"]})
            else:
                rep.traces += 1
        except vlib.XmlError as e:
            rep.violation("pass:example:not-wellformed", {"example": c["k"], "detail": str(e)})
    rep.notes["rule"] = "payload strings enumerated by TLC (Text.tla) at each lexical position of namespaced documents x configurations; prolog shapes; embedded subtrees; examples/*.svg"
    rep.notes["exhaustive"] = True
    rep.bounds["wf"] = {"MaxLen": maxlen}


def replay(path):
    with open(path) as f:
        r = json.load(f)["replay"]
    res = vlib.run_cases([{"k": "replay", "xml": r["xml"], "cfg": r.get("cfg", {})}])
    print(json.dumps(res["replay"], indent=1)[:4000])
    return 0
