"""C02 Successful output is always well-formed XML with a proper SVG root.

Model: spec/Text.tla family "wf": every value source (attribute pass-through,
variable substitution, string expressions, style, configuration strings,
group / reuse attributes, debug comment of the original element, text
attribute, element content, <text>, CDATA, comment attributes, input comments)
x every string over the XML-significant alphabet up to MaxLen.  TLC checks
that the design's serialisation is well-formed, decodes to the author's value
and is idempotent; the deviations RawAttr / DoubleEscape are negative
controls.  Family "root": document shapes (prolog x first/second child kinds
x namespaced or not).  Replay: whenever the real transform succeeds its bytes
must be accepted by expat (independent parser; it also rejects duplicate
attributes), be single-rooted at <svg> with namespace and version."""
import json
import random

import textc
import vlib


def text_family(rep, family, invariants, maxlen, deviations=()):
    cfg = vlib.cfg_text(constants={"Family": family, "MaxLen": maxlen, "Deviations": set(deviations)},
                        invariants=list(invariants) + ([] if deviations else ["Export"]))
    r = vlib.run_tlc("MC_Text", cfg, f"text-{family}-{'-'.join(deviations) or 'design'}", workers=8, timeout=900)
    if deviations:
        return r
    if not r.ok:
        raise vlib.ToolError(f"Text family {family}: TLC reports {r.violated}: specification error")
    rep.add_tlc(r, f"Text.tla family {family}, MaxLen={maxlen}, invariants {list(invariants)}")
    return r.replay


KID = {
    "shape": '<rect xy="1 1" wh="3"/>',
    "text-shape": '<rect xy="5 1" wh="3" text="a &amp; b"/>',
    "nested-ns-svg": '<svg xmlns="http://www.w3.org/2000/svg" width="5" height="5"><rect wh="2" text="x"/></svg>',
    "nested-plain-svg": '<svg><rect xy="2 2" wh="2"/></svg>',
    "specs": '<specs><rect id="tpl" wh="2"/></specs>',
    "g": '<g><circle cxy="9 9" r="1"/></g>',
    "comment": "<!-- a comment -->",
    "defs": '<defs><linearGradient id="lg"><stop offset="0" stop-color="red"/></linearGradient></defs>',
    "style": "<style>rect { fill: red; }</style>",
}
PROLOG = {"none": "", "xmldecl": '<?xml version="1.0" encoding="UTF-8"?>\n', "comment": "<!-- prolog -->\n",
          "pi": '<?xml-stylesheet href="s.css"?>\n', "doctype": "<!DOCTYPE svg>\n",
          "doctype-public": '<!DOCTYPE svg PUBLIC "-//W3C//DTD SVG 1.1//EN" "http://www.w3.org/Graphics/SVG/1.1/DTD/svg11.dtd">\n',
          "doctype-subset": '<!DOCTYPE svg [\n<!ENTITY foo "bar">\n<!-- c -->\n]>\n',
          "xmldecl-doctype": '<?xml version="1.0" encoding="utf-8" standalone="no"?>\n<!DOCTYPE svg>\n<!-- c -->\n'}


ROOTATTRS = {"none": "", "xlink": ' xmlns:xlink="http://www.w3.org/1999/xlink"', "version": ' version="1.1"', "id-class": ' id="top" class="a b"',
             "custom-ns": ' xmlns:my="urn:example:my" my:note="n"', "xml-space": ' xml:space="preserve" xml:lang="en"'}


def root_document(c):
    ns = ' xmlns="http://www.w3.org/2000/svg"' if c["ns"] else ""
    if c.get("form") == "empty-tag":
        return PROLOG[c["prolog"]] + f"<svg{ns}{ROOTATTRS[c.get('rootattrs', 'none')]}/>"
    return PROLOG[c["prolog"]] + f"<svg{ns}{ROOTATTRS[c.get('rootattrs', 'none')]}>" + "".join(KID[k] for k in c["kids"]) + "</svg>"


def run(rep, tier, seed):
    rnd = random.Random(seed)
    big = tier == "thorough"
    rep.assumptions += ["Sigma abstracts Unicode: one representative per XML-relevant class plus one non-ASCII letter",
                        "expat is the independent parser; it is trusted"]
    maxlen = 3 if big else 2
    recs = text_family(rep, "wf", ["WellFormed", "Idempotent"], maxlen)
    for dev, inv in (("RawAttr", "WellFormed"), ("DoubleEscape", "WellFormed"), ("RawCData", "WellFormed")):
        r = text_family(rep, "wf", [inv], 2, deviations=(dev,))
        rep.notes.setdefault("negative_controls", []).append({"deviation": dev, "violated": r.violated})
        if r.violated != inv:
            raise vlib.ToolError(f"negative control {dev}: TLC reported {r.violated}")
    ncfg = 3 if big else 2
    cases = []
    skipped = 0
    for j, c in enumerate(recs):
        d = textc.wf_document(c, rnd)
        if d is None:
            skipped += 1
            continue
        xml, cfg0 = d
        for v in range(ncfg):
            cfg = dict(textc.CONFIGS[(j + v * 3) % len(textc.CONFIGS)])
            cfg.update(cfg0)
            cases.append({"k": f"c02-{j}-{v}", "xml": xml, "cfg": cfg, "case": c})
    # references to entities nobody declared, in the text-only content of non-graphics containers
    for j, body in enumerate(['<title>a &nbsp; b</title><rect wh="2"/>', '<desc>&deg;&rarr;</desc><rect wh="2"/>',
                              '<style>.a::before { content: "&rarr;"; }</style><rect wh="2" class="a"/>',
                              '<text xy="0 0"><tspan>&nbsp;x</tspan></text>', '<rect wh="9" text="&nbsp;"/>', '<rect wh="9">&copy; 2020</rect>',
                              '<g><title>&nbsp;</title><rect wh="1"/></g>', '<a href="x"><desc>&amp;nbsp; &nbsp;</desc></a>']):
        for v in range(2):
            cases.append({"k": f"c02e-{j}-{v}", "xml": f"<svg>{body}</svg>", "cfg": dict(textc.CONFIGS[(j + 5 * v) % len(textc.CONFIGS)]),
                          "case": {"fam": "wf", "src": "undeclared-entity", "kind": "text", "s": []}})
    roots = text_family(rep, "root", [], 0)
    for j, c in enumerate(roots):
        for v in range(2):
            cases.append({"k": f"c02r-{j}-{v}", "xml": root_document(c), "cfg": dict(textc.CONFIGS[(j + v) % len(textc.CONFIGS)]),
                          "case": c})
    res = vlib.run_cases([{"k": c["k"], "xml": c["xml"], "cfg": c["cfg"]} for c in cases])
    n_ok = 0
    for i, c in enumerate(cases):
        r = res[c["k"]]
        cs = c["case"]
        rep.case(c["xml"] + json.dumps(c["cfg"], sort_keys=True))
        src = cs.get("src") or "root-shape"
        if r["status"] in ("panic", "abort", "hang"):
            rep.violation(f"wf:{src}:crash", {"case": cs, "xml": c["xml"], "cfg": c["cfg"], "status": r["status"], "err": r.get("err")})
            continue
        if r["status"] != "ok":
            # C02 speaks about successful transforms only; a failing root-shape document is still suspicious
            if cs["fam"] == "root":
                rep.violation("root:not-ok", {"case": cs, "xml": c["xml"], "cfg": c["cfg"], "err": vlib.trunc(r.get("err"))})
            continue
        n_ok += 1
        why = textc.check_wellformed(r["out"], expect_svg_root=True)
        if why == "root <svg> has no version" and cs["fam"] == "root" and cs["ns"]:
            why = None     # a namespaced root is passed through untouched (C03): nothing may be added
        if why is None and cs["fam"] == "root" and not cs["ns"] and not r["out"].strip():
            why = "empty output"
        if why is None and cs.get("kind") == "cdata" and c["cfg"].get("add_auto_styles", True):
            # the sections together must spell the setting's value
            if textc.conc(cs["s"]) not in textc.style_text(r["out"]):
                why = "style sheet does not contain the setting's value"
        if why:
            kind = "wellformed" if why.startswith("not well-formed") else ("cdata" if "style sheet" in why else "root")
            rep.violation(f"wf:{src}:{kind}", {"case": cs, "xml": c["xml"], "cfg": c["cfg"], "out": vlib.trunc(r["out"], 2500), "detail": why})
        else:
            rep.traces += 1
        if i % 1499 == 0:
            rep.sample({"case": cs, "xml": c["xml"], "cfg": c["cfg"]})
    rep.notes["transforms_ok"] = n_ok
    rep.notes["skipped_unrepresentable_inputs"] = skipped
    if n_ok < len(cases) * 0.5:
        raise vlib.ToolError(f"only {n_ok} of {len(cases)} generated documents transform successfully: generator is off (vacuous)")
    rep.notes["rule"] = ("Text.tla WfCases (source x string over Sigma up to MaxLen) x configurations, plus RootCases; "
                         "distinct = distinct (document, configuration)")
    rep.notes["exhaustive"] = True
    rep.bounds["wf"] = {"MaxLen": maxlen, "configs_per_case": ncfg}


def replay(path):
    with open(path) as f:
        r = json.load(f)["replay"]
    res = vlib.run_cases([{"k": "replay", "xml": r["xml"], "cfg": r.get("cfg", {})}])
    print(json.dumps(res["replay"], indent=1)[:4000])
    return 0
