"""C08 Root extent: viewBox, width and height enclose exactly the drawn content.

Model: spec/Geom.tla family "extent": item lists over the element kinds that
do / do not contribute (shapes, standalone text by anchor, groups through
translate / scale, box; point, defs, specs, symbol, shape text contribute
nothing), Extent = union, RootBox = grow by border then round outward to whole
units.  TLC checks enclosure, integrality, < 1 unit slack and idempotence of
RootBox on every case.  Replay: root viewBox / width / height of the real
output equal the prediction for every subset of author-supplied attributes;
second oracle: the extent recomputed from the output's own geometry."""
import json
import random

import geom
import vlib
from geom import q


def fstr(x):
    s = ("%.3f" % x).rstrip("0").rstrip(".")
    return "0" if s in ("-0", "") else s


def item_xml(it, i, rnd, late_anchor):
    k, b = it["k"], it["b"]
    x1, y1, x2, y2 = b["x1"], b["y1"], b["x2"], b["y2"]
    w, h = x2 - x1, y2 - y1
    rect = f'<rect x="{q(x1)}" y="{q(y1)}" width="{q(w)}" height="{q(h)}"/>'
    if k == "rect":
        if late_anchor:
            return f'<rect xy="#zz{i}@tl" wh="{q(w)} {q(h)}"/>', f'<point id="zz{i}" xy="{q(x1)} {q(y1)}"/>'
        return rect, ""
    wrap = {"inif": '<if test="{{{{1 + 1}}}}">{}</if>', "inloop": '<loop count="1">{}</loop>', "infor": '<for var="fv" data="7">{}</for>',
            "ing": "<g>{}</g>", "ina": '<a href="#top">{}</a>', "ifoff": '<if test="0">{}</if>', "loop0": '<loop count="0">{}</loop>'}
    if k in wrap:
        return wrap[k].format(rect), ""
    if k == "circle":
        return f'<circle cx="{q(x1 + h / 2)}" cy="{q(y1 + h / 2)}" r="{q(h / 2)}"/>', ""
    if k == "line":
        return f'<line x1="{q(x1)}" y1="{q(y2)}" x2="{q(x2)}" y2="{q(y1)}"/>', ""
    if k == "box":
        return f'<box x="{q(x1)}" y="{q(y1)}" width="{q(w)}" height="{q(h)}"/>', ""
    if k == "text":
        return rnd.choice([f'<text x="{q(x1)}" y="{q(y1)}">label {i}</text>', f'<text xy="{q(x1)} {q(y1)}" text="label {i}"/>']), ""
    if k == "point":
        return f'<point xy="{q(x1)} {q(y1)}"/>', ""
    if k == "defs":
        return f"<defs>{rect}</defs>", ""
    if k == "specs":
        return f'<specs><rect id="sp{i}" x="{q(x1)}" y="{q(y1)}" width="{q(w)}" height="{q(h)}"/></specs>', ""
    if k == "symbol":
        return f'<symbol id="sy{i}">{rect}</symbol>', ""
    if k == "shapetext":
        return f'<rect x="{q(x1)}" y="{q(y1)}" width="{q(w)}" height="{q(h)}" text="a rather long label that sticks out"/>', ""
    if k == "gtrans":
        return f'<g transform="translate(3 -2)">{rect}</g>', ""
    if k == "gscale":
        return f'<g transform="scale(2)">{rect}</g>', ""
    if k == "gtransvar":
        return f'<var tv{i}="3 -2"/><g transform="translate($tv{i})">{rect}</g>', ""
    if k == "textdxy":
        return f'<text xy="{q(x1)} {q(y1)}" text-dxy="4 -2">label</text>', ""
    if k == "textloc":
        return f'<text xy="{q(x1)} {q(y1)}" text-loc="br" text="label"/>', ""
    if k == "gflip":
        return f'<g transform="scale(-1)">{rect}</g>', ""
    if k == "gflipx":
        return f'<g transform="scale(-1 1)">{rect}</g>', ""
    if k == "polyline":
        return f'<polyline points="{q(x1)},{q(y2)} {q(x1 + w / 2)},{q(y1)} {q(x2)},{q(y2)}" fill="none"/>', ""
    if k == "path":
        return f'<path d="M{q(x1)} {q(y1)} L{q(x2)} {q(y1)} l0 {q(h)} H{q(x1)} Z"/>', ""
    if k == "nestedsvg":
        return f"<svg>{rect}</svg>", ""
    if k == "gnested":
        return f'<g transform="translate(3 -2)"><g transform="scale(2)">{rect}</g></g>', ""
    if k == "clip":
        return (f'<defs><clipPath id="cp{i}"><rect x="{q(x1)}" y="{q(y1)}" width="1" height="1"/></clipPath></defs>'
                f'<rect x="{q(x1)}" y="{q(y1)}" width="{q(w)}" height="{q(h)}" clip-path="url(#cp{i})"/>'), ""
    if k == "clipline":
        return (f'<defs><clipPath id="cq{i}"><rect x="{q(x1)}" y="{q(y1)}" width="1" height="1"/></clipPath></defs>'
                f'<line x1="{q(x1)}" y1="{q(y1)}" x2="{q(x2)}" y2="{q(y1)}" clip-path="url(#cq{i})"/>'), ""
    if k == "reuse":
        return f'<specs><rect id="rt{i}" x="{q(x1)}" y="{q(y1)}" width="{q(w)}" height="{q(h)}"/></specs><reuse href="#rt{i}" x="{q(x1 + 80)}" y="{q(y1 + 40)}"/>', ""
    if k in ("usex", "usey", "usexy", "usetrans"):
        off = ('x="20"' if "x" in k[3:] else "") + (' y="-10"' if "y" in k[3:] else "")
        if k == "usetrans":
            off = 'transform="translate(20 -10)"'
        # the referenced shape: a rect, or an ellipse / line covering the same box
        tgt = rnd.choice([f'<rect id="ut{i}" x="{q(x1)}" y="{q(y1)}" width="{q(w)}" height="{q(h)}"/>',
                          f'<ellipse id="ut{i}" cx="{q(x1 + w / 2)}" cy="{q(y1 + h / 2)}" rx="{q(w / 2)}" ry="{q(h / 2)}"/>',
                          f'<line id="ut{i}" x1="{q(x1)}" y1="{q(y1)}" x2="{q(x2)}" y2="{q(y2)}"/>'])
        return f'<defs>{tgt}</defs><use href="#ut{i}" {off}/>', ""
    raise ValueError(k)


SUPPLIED = {"none": {}, "w": {"width": "40mm"}, "h": {"height": "30"}, "wh": {"width": "120px", "height": "50%"},
            "vb": {"viewBox": "0 0 10 10"}, "w+vb": {"width": "7cm", "viewBox": "1 2 30 40"}}


def concretise(c, rnd):
    items = list(c["items"])
    if c["order"] == "rev":
        items.reverse()
    body, tail = "", ""
    for i, it in enumerate(items):
        x, t = item_xml(it, i, rnd, late_anchor=(c["order"] == "rev"))
        body += x
        tail += t
    attrs = "".join(f' {k}="{v}"' for k, v in SUPPLIED[c["supplied"]].items())
    return f"<svg{attrs}>{body}{tail}</svg>"


def split_unit(s):
    i = len(s)
    while i > 0 and not (s[i - 1].isdigit() or s[i - 1] == "."):
        i -= 1
    return float(s[:i]), s[i:]


def run(rep, tier, seed):
    rnd = random.Random(seed)
    rep.assumptions += ["item boxes on a grid of quarter units incl. negative and fractional positions; border in {0,3,5}; scale in {1,2.5}",
                        "paths: straight commands (M m L l H h V v Z z) through the path machine of Geom.tla; curves and arcs only through the examples"]
    recs = geom.run_geom_family(rep, "extent", tier, ["ExtentIdentities"])
    limit = 6000 if tier == "quick" else 60000
    if len(recs) > limit:
        recs = rnd.sample(recs, limit)
    cases = []
    for j, c in enumerate(recs):
        xml = concretise(c, random.Random(rnd.random()))
        cases.append({"k": f"c08-{j}", "xml": xml, "case": c, "key": xml + str(c["border"]) + str(c["scale2"]),
                      "cfg": {"border": c["border"], "scale": c["scale2"] / 2}})

    def check(c, resp):
        cs = c["case"]
        sup = SUPPLIED[cs["supplied"]]
        if resp["status"] != "ok":
            return ("extent:not-ok", f"transform failed: {resp.get('err')}")
        root = vlib.parse_xml(resp["out"])
        svgs = [n for n in root.children if n.kind == "el"]
        if len(svgs) != 1 or svgs[0].name != "svg":
            return ("extent:root", "output is not a single <svg> root")
        a = svgs[0].attrs
        if a.get("xmlns") != "http://www.w3.org/2000/svg" or "version" not in a:
            return ("extent:root-attrs", f"namespace / version missing: {a}")
        for k, v in sup.items():
            if a.get(k) != v:
                return ("extent:supplied-changed", f"author-supplied {k}={v!r} became {a.get(k)!r}")
        if not cs["has"]:
            extra = [k for k in ("viewBox", "width", "height") if k in a and k not in sup]
            if extra:
                return ("extent:empty", f"nothing is rendered with a bounding box, yet {extra} were synthesised: {a}")
            return None
        r = cs["root"]
        X, Y, W, H = r["x1"] / 4, r["y1"] / 4, (r["x2"] - r["x1"]) / 4, (r["y2"] - r["y1"]) / 4
        scale = cs["scale2"] / 2
        if "viewBox" not in sup:
            try:
                vb = [float(t) for t in a.get("viewBox", "").split()]
            except ValueError:
                vb = []
            if len(vb) != 4 or any(abs(p - e) > 0.0015 for p, e in zip(vb, (X, Y, W, H))):
                return ("extent:viewBox", f"viewBox {a.get('viewBox')!r}; the drawn content (border {cs['border']}) gives {X} {Y} {W} {H}")
        exp_w = exp_h = None
        if "width" not in sup and "height" not in sup:
            exp_w, exp_h = (W * scale, "mm"), (H * scale, "mm")
        elif W == 0 or H == 0:
            pass    # degenerate extent: no aspect ratio to derive a dimension from
        elif "width" in sup and "height" not in sup:
            v, u = split_unit(sup["width"])
            exp_h = (v * H / W, u)
        elif "height" in sup and "width" not in sup:
            v, u = split_unit(sup["height"])
            exp_w = (v * W / H, u)
        for name, exp in (("width", exp_w), ("height", exp_h)):
            if exp is None:
                continue
            try:
                v, u = split_unit(a.get(name, ""))
            except ValueError:
                return (f"extent:{name}", f"{name} = {a.get(name)!r}")
            if u != exp[1] or abs(v - exp[0]) > 0.0015 + 1e-5 * abs(exp[0]):
                return (f"extent:{name}", f"{name} = {a.get(name)!r}, expected {fstr(exp[0])}{exp[1]} (content {W} x {H}, scale {scale}, supplied {sup})")
        return None
    geom.run_and_compare(rep, cases, check, "c08")
    rep.notes["rule"] = "cases enumerated by TLC (Geom.tla ExtentCases): item lists x border x scale x supplied root attributes x order"
    rep.notes["exhaustive"] = tier == "thorough"

    # the box of a path: command sequences enumerated by TLC (moveto / lineto / closepath, absolute
    # and relative, several sub-paths), the box predicted by the path machine of Geom.tla
    precs = geom.run_geom_family(rep, "pathbox", tier, ["PathBoxIdentities"])
    pcases = []
    for j, c in enumerate(precs):
        prnd = random.Random(rnd.random())
        unit = prnd.choice([1, 1, 0.5, 2.5])       # user units per model unit
        def n(v):
            return fstr(v * unit)
        d = f"M{n(2)} {n(3)}" if prnd.random() < 0.5 else f"M {n(2)},{n(3)}"
        for k in c["cmds"]:
            sep = prnd.choice([" ", "", " "])
            if k[0] in "zZ":
                d += sep + k[0]
            elif k[0] in "Bb":
                d += f"{sep}{k[0]}{prnd.choice(['', ' '])}{k[1]}"
            elif k[0] in "hHvV":
                d += f"{sep}{k[0]}{prnd.choice(['', ' '])}{n(k[1])}"
            else:
                d += f"{sep}{k[0]}{prnd.choice(['', ' '])}{n(k[1])}{prnd.choice([' ', ','])}{n(k[2])}"
        b = c["box"]
        exp = (b["x1"] * unit, b["y1"] * unit, b["x2"] * unit, b["y2"] * unit)
        form = j % 3
        if form == 0:
            xml = f'<svg><path d="{d}"/></svg>'
        elif form == 1:
            # the box is also what other elements are placed against
            xml = f'<svg><path id="p" d="{d}"/><rect id="probe" xy="#p@tl" wh="#p"/></svg>'
        else:
            xml = f'<svg><g><path d="{d}" fill="none"/></g></svg>'
        pcases.append({"k": f"c08p-{j}", "xml": xml, "case": c, "key": xml, "cfg": {"border": 0}, "exp": exp})

    def pcheck(c, resp):
        if resp["status"] != "ok":
            return ("pathbox:not-ok", f"transform failed: {resp.get('err')}")
        root = [x for x in vlib.parse_xml(resp["out"]).children if x.kind == "el"][0]
        import math
        e = c["exp"]
        want = (math.floor(e[0] + 1e-9), math.floor(e[1] + 1e-9), math.ceil(e[2] - 1e-9), math.ceil(e[3] - 1e-9))
        try:
            vb = [float(t) for t in root.attrs.get("viewBox", "").split()]
        except ValueError:
            vb = []
        if len(vb) != 4 or any(abs(g - w) > 0.0015 for g, w in zip((vb[0], vb[1], vb[0] + vb[2], vb[1] + vb[3]), want)):
            return ("pathbox:viewBox", f"viewBox {root.attrs.get('viewBox')!r}; the path machine of the specification gives the box {e} (viewBox corners {want})")
        for el in vlib.elements(root):
            if el.name == "path" and any(ch in el.attrs.get("d", "") for ch in "Bb"):
                return ("pathbox:bearing-left", f"bearing commands are not SVG path data, yet the output has d={el.attrs.get('d')!r}")
        pr = geom.find_by_id(resp["out"], "probe")
        if pr is not None:
            got = (float(pr.attrs.get("x", 0)), float(pr.attrs.get("y", 0)), float(pr.attrs.get("width", 0)), float(pr.attrs.get("height", 0)))
            exp = (e[0], e[1], e[2] - e[0], e[3] - e[1])
            if any(abs(g - w) > 0.0015 for g, w in zip(got, exp)):
                return ("pathbox:relative", f"an element placed on the path's box got x/y/width/height {got}, the box is {exp}")
        return None
    geom.run_and_compare(rep, pcases, pcheck, "c08p")

    # second oracle: E recomputed from the output's own geometry, for the repository's examples
    import glob
    import os
    ex = []
    for f in sorted(glob.glob(os.path.join(vlib.REPO, "examples", "*.xml"))):
        src = open(f, encoding="utf-8").read()
        # the recomputation assumes the default border and cannot tell standalone text
        # (anchor counts) from generated text, nor see invisible boxes: skip those inputs
        if any(t in src for t in ("<config", "<text", "<box", "<point", "<use", "<reuse")):
            continue
        ex.append({"k": "ex-" + os.path.basename(f), "xml": src, "cfg": {}})
    res = vlib.run_cases(ex)
    n_ok = 0
    for c in ex:
        r = res[c["k"]]
        if r["status"] != "ok":
            continue
        e = recompute_extent(r["out"])
        if e is None:
            continue
        rep.case(c["k"])
        root = [n for n in vlib.parse_xml(r["out"]).children if n.kind == "el"][0]
        vb = root.attrs.get("viewBox")
        if vb is None:
            continue
        vb = [float(t) for t in vb.split()]
        border = 5
        import math
        exp = (math.floor(e[0] - border), math.floor(e[1] - border), math.ceil(e[2] + border), math.ceil(e[3] + border))
        got = (vb[0], vb[1], vb[0] + vb[2], vb[1] + vb[3])
        if any(abs(a - b) > 0.0015 for a, b in zip(exp, got)):
            rep.violation("extent:example-recomputed", {"example": c["k"], "viewBox": root.attrs.get("viewBox"),
                                                        "extent_from_output_geometry": e, "expected_root": exp})
        else:
            n_ok += 1
            rep.traces += 1
    rep.notes["examples_recomputed"] = n_ok


SIMPLE = {"rect", "circle", "ellipse", "line", "polyline", "polygon", "text", "tspan", "g", "svg", "style", "defs"}


def recompute_extent(out):
    """Union of the bounding boxes of what the output draws, from its own
    attributes - only for outputs made of element kinds understood here and
    without transforms / clip paths / paths (otherwise None)."""
    root = [n for n in vlib.parse_xml(out).children if n.kind == "el"][0]
    boxes = []

    def walk(n, in_defs):
        for ch in n.children:
            if ch.kind != "el":
                continue
            if ch.name not in SIMPLE or "transform" in ch.attrs or "clip-path" in ch.attrs:
                raise KeyError(ch.name)
            if ch.name in ("defs", "style"):
                continue
            if ch.name in ("polyline", "polygon"):
                nums = [float(x) for x in ch.attrs.get("points", "").replace(",", " ").split()]
                xs, ys = nums[0::2], nums[1::2]
                if xs and ys:
                    boxes.append((min(xs), min(ys), max(xs), max(ys)))
            elif ch.name in ("text", "tspan"):
                pass   # generated shape text adds nothing; standalone text only by anchor (indistinguishable here)
            elif ch.name in ("g", "svg"):
                walk(ch, in_defs)
            else:
                b = geom.el_bbox(ch)
                if b is None or any(v is None for v in b):
                    raise KeyError("nobox")
                boxes.append(b)
    try:
        walk(root, False)
    except (KeyError, ValueError):
        return None
    if not boxes:
        return None
    # standalone text elements cannot be told from generated ones in the output: skip documents with text at extremes
    return (min(b[0] for b in boxes), min(b[1] for b in boxes), max(b[2] for b in boxes), max(b[3] for b in boxes))


def replay(path):
    with open(path) as f:
        r = json.load(f)["replay"]
    res = vlib.run_cases([{"k": "replay", "xml": r["xml"], "cfg": r.get("cfg", {})}])
    print(json.dumps(res["replay"], indent=1)[:4000])
    return 0
