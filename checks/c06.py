"""C06 Determinism: same input and configuration give the same bytes, every time.

Model: spec/Styles.tla PermIndependent - the emitted order of pattern rules
does not depend on the (arbitrary) iteration order of the class set, with the
deviation HashOrderLeaks as negative control; spec/Frontend.tla Functional -
over any history, equal requests get equal results.  Replay: a recorded
HISTORY for every key (document, configuration): transformed in one process
repeatedly, in several threads, and in several fresh processes (fresh hash
keys); the history is validated by TLC against TraceFrontend.tla, which
accepts an observation only if it equals what was observed before for that
key.  Keys: class sets with several pattern classes per family, documents
printing random() / randint() under several seeds, documents that fail with
several element errors (the report order is part of the bytes), attribute-rich
elements (root included) succeeding and failing, examples."""
import glob
import json
import os
import random

import frontc
import stylesc
import vlib


def keys(rnd, tier):
    out = []
    pats = ["d-grid", "d-grid-h", "d-grid-v", "d-hatch", "d-crosshatch", "d-stipple"]
    n = 40 if tier == "quick" else 200
    for j in range(n):
        base = rnd.sample(pats, rnd.choice([1, 2, 3]))
        cls = []
        for b in base:
            for s in rnd.sample([2, 3, 5, 8, 10, 13, 20, 37, 50, 100], rnd.choice([2, 3, 4])):
                cls.append(f"{b}-{s}")
        cls += rnd.sample(["d-softshadow", "d-arrow", "d-fill-red", "d-text-bold", "d-dash"], 2)
        body = "".join(f'<rect xy="{3 * i} 0" wh="2" class="{c}"/>' for i, c in enumerate(cls))
        out.append(("patterns", f"<svg>{body}</svg>", {"theme": rnd.choice(["default", "dark", "glass"])}))
    # every family of the style vocabulary, ALL its classes in use at once (any rule list walked in the
    # iteration order of the set of classes in use shows here), in a shuffled document order
    fams = {"stroke": stylesc.STROKE_CLASSES, "dash": stylesc.DASH_CLASSES, "text": stylesc.TEXT_CLASSES, "arrow": stylesc.ARROW_CLASSES,
            "shadow": stylesc.SHADOW_CLASSES,
            "colour": [pre + c for c in ("red", "teal", "gold", "navy", "none", "black") for pre in ("d-", "d-fill-", "d-text-", "d-text-ol-")
                       if not (c == "none" and pre.startswith("d-text"))]}
    allc = [c for f in fams.values() for c in f]
    sets = [(f, list(cl)) for f, cl in fams.items()] + [("mixed", rnd.sample(allc, 14)) for _ in range(3 if tier == "quick" else 12)] + [("all", allc)]
    for f, cl in sets:
        for rep_ in range(1 if tier == "quick" else 3):
            cl = list(cl)
            rnd.shuffle(cl)
            body = "".join((f'<line xy1="{3 * i} 5" xy2="{3 * i + 2} 9" class="{c}"/>' if i % 3 == 2 else f'<rect xy="{3 * i} 0" wh="2" class="{c}" text="t"/>')
                           for i, c in enumerate(cl))
            out.append(("vocab-" + f, f"<svg>{body}</svg>", {"theme": rnd.choice(["default", "dark", "glass"])}))
    for seed in (0, 1, 7, 12345678901):
        doc = ('<svg><loop count="5"><rect xy="{{randint(0, 50)}} {{random()}}" wh="{{1 + random()}}" text="{{randint(1, 6)}}"/></loop>'
               '<circle cxy="{{random() * 10}} 3" r="{{randint(1, 3)}}"/></svg>')
        out.append(("random", doc, {"seed": seed}))
        out.append(("random", '<svg><config seed="%d"/>%s</svg>' % (seed % 1000, '<rect wh="{{random()}}"/>' * 4), {}))
    # several random attributes of ONE <var> (assigned together: the draws must still be ordered)
    out.append(("random", '<svg><var p="{{random()}}" q="{{random()}}" r="{{randint(1, 100)}}" s="{{random()}}"/>'
                          '<rect wh="2" data-v="$p $q $r $s"/><g t="{{random()}}" u="{{random()}}"><rect wh="1" data-v="$t $u"/></g></svg>', {"seed": 3}))
    # local styles requested from inside the document: only the root id may vary
    out.append(("local-random", '<svg><config use-local-styles="true"/><rect wh="{{1 + random()}}" text="{{randint(1, 6)}}" class="d-fill-red"/>'
                                '<circle cxy="9 9" r="{{random()}}"/></svg>', {"seed": 5}))
    out.append(("local-random", '<svg><rect wh="{{1 + random()}}" class="d-softshadow"/><config use-local-styles="true"/><rect xy="5 5" wh="{{random()}}"/></svg>', {}))
    # ... and requested through the configuration, where nothing restores the generator afterwards
    out.append(("local-random", '<svg><rect wh="{{1 + random()}}" text="{{randint(1, 6)}}" class="d-fill-red"/><circle cxy="9 9" r="{{random()}}"/></svg>',
                {"use_local_styles": True, "seed": 4}))
    out.append(("local-random", '<svg><loop count="3"><rect xy="{{randint(0, 9)}} 0" wh="1"/></loop></svg>', {"use_local_styles": True}))
    # local styles switched on and off again inside the document: off is off (no random root id)
    out.append(("toggle", '<svg><config use-local-styles="true"/><rect wh="2" class="d-fill-red"/><config use-local-styles="false"/>'
                          '<rect xy="5 5" wh="1" class="d-softshadow"/></svg>', {}))
    out.append(("toggle", '<svg><config use-local-styles="true"/><config use-local-styles="false"/><rect wh="2" text="t"/></svg>', {"seed": 2}))
    for k in range(6 if tier == "quick" else 20):
        n = rnd.randint(3, 9)
        body = "".join(f'<rect id="e{i}" xy="#missing{i}|h" wh="{{{{1 +}}}}"/>' if i % 2 else f'<rect xy="#nowhere{i}@tl" wh="2"/>' for i in range(n))
        out.append(("errors", f"<svg>{body}</svg>", {}))
    # attribute-rich elements (root included): attributes live in maps as well as in ordered
    # lists, and the bytes - output or error text - must not show a map's iteration order
    extra = ["data-a", "role", "preserveAspectRatio", "data-z", "aria-label", "tabindex", "data-k", "lang", "opacity", "data-b", "visibility", "cursor"]
    for k in range(6 if tier == "quick" else 24):
        def attrs(m):
            return " ".join(f'{a}="v{i}"' for i, a in enumerate(rnd.sample(extra, m)))
        body = (f'<rect id="a" wh="4" {attrs(5)}/><g id="g" {attrs(4)}><circle r="2" {attrs(6)}/></g><text xy="0 9" text="t" {attrs(5)}/>'
                f'<line start="#a" end="#g" {attrs(4)}/><reuse href="#a" x="9" {attrs(3)}/><use href="#a" {attrs(3)}/>')
        out.append(("attrs", f'<svg {attrs(rnd.choice([2, 4, 7]))}>{body}</svg>', {}))
        out.append(("attrs", f'<svg id="r" class="c d-fill-red" {attrs(3)}>{body}</svg>', {"add_auto_styles": k % 2 == 0}))
        # ... and the report when such an element fails
        el = rnd.choice(['<line start="#nowhere" end="#missing" {A}/>', '<polyline start="#a@r" end="#missing@l" {A}/>', '<reuse href="#nowhere" {A}/>',
                         '<rect xy="#nowhere|h" wh="2" {A}/>', '<path d="M 0 0 Q 1" {A}/>', '<text xy="#nowhere@c" text="t" {A}/>',
                         '<g {A}><rect wh="{{{{1 +}}}}"/></g>', '<use href="#nowhere" {A}/>'])
        out.append(("errors", '<svg><rect id="a" wh="4"/>' + el.replace("{A}", attrs(6)) + "</svg>", {}))
    for f in sorted(glob.glob(os.path.join(vlib.REPO, "examples", "*.xml"))):
        out.append(("example", open(f, encoding="utf-8").read(), {}))
    # the same document under configurations that differ in a single field
    doc = '<svg><rect wh="20 10" text="hello" class="d-fill-red d-softshadow"/><line xy1="0 20" xy2="20 20" class="d-arrow d-dash"/></svg>'
    for cfg in [{}, {"add_metadata": True}, {"seed": 7, "theme": "dark"}, {"debug": True, "border": 9},
            # one variation of every configuration field: requests that differ in nothing else must not share results
            {"font_size": 5.0}, {"font_family": "serif"}, {"background": "lightyellow"}, {"scale": 2.0}, {"border": 0},
            {"theme": "bold"}, {"theme": "glass"}, {"add_auto_styles": False}, {"svg_style": "max-width: 100%"}, {"seed": 99}]:
        out.append(("config-field", doc, cfg))
    return out


def run(rep, tier, seed):
    rnd = random.Random(seed)
    big = tier == "thorough"
    rep.assumptions += ["hash seeds cannot be enumerated: every run uses several independently keyed hash sets (one per transform) and several fresh processes",
                        "use_local_styles is off (the randomised root id is the permitted exception)"]
    inv = ["Minimal", "Complete", "Closed", "NothingWhenOff", "PermIndependent"]
    r = vlib.run_tlc("MC_Styles", vlib.cfg_text(constants={"Family": "small", "Deviations": set()}, invariants=inv), "c06-styles",
                     workers=8, timeout=900, keep_stdout=False)
    if not r.ok:
        raise vlib.ToolError(f"Styles.tla: {r.violated}")
    rep.add_tlc(r, "Styles.tla PermIndependent (design)")
    rn = vlib.run_tlc("MC_Styles", vlib.cfg_text(constants={"Family": "small", "Deviations": {"HashOrderLeaks"}}, invariants=["PermIndependent"]),
                      "c06-neg", workers=4, timeout=600, keep_stdout=False)
    if rn.violated != "PermIndependent":
        raise vlib.ToolError("negative control HashOrderLeaks did not violate PermIndependent")
    rf = vlib.run_tlc("Frontend", vlib.cfg_text(constants={"MaxReq": 3 if big else 2, "Deviations": set()},
                                                invariants=["Agree", "Functional", "FilesSane"]), "c06-fe", workers=8, timeout=900, keep_stdout=False)
    if not rf.ok:
        raise vlib.ToolError(f"Frontend.tla: {rf.violated}")
    rep.add_tlc(rf, "Frontend.tla Functional (design)")
    ks = keys(rnd, tier)
    nproc = 6 if big else 4
    events = []
    cases = [{"k": f"k{j}", "xml": xml, "cfg": cfg, "threads": 3, "reps": 2} for j, (kind, xml, cfg) in enumerate(ks)]
    binary = vlib.build_runner()
    runs = []
    # the function itself: every key in a fresh process of its own (no history)
    runs.append(vlib.run_isolated([dict(c, threads=0, reps=0) for c in cases], binary=binary))
    for pidx in range(nproc):
        # one process per run, the keys in a different order each time: the result may
        # not depend on what the process did before
        order = list(cases)
        random.Random(seed * 1000 + pidx).shuffle(order)
        runs.append(vlib._run_chunk(binary, order, 60000, 4096))
    for j, (kind, xml, cfg) in enumerate(ks):
        key = frontc.key_of(xml, cfg)
        rep.case(key)
        bad = None
        for pidx, res in enumerate(runs):
            rr = res[f"k{j}"]
            if rr["status"] in ("panic", "abort", "hang"):
                bad = (f"determinism:{kind}:crash", {"status": rr["status"]})
                break
            events.append(dict(frontc.table_event(key, rr, with_err=True, mask_local_id=(kind == "local-random")), where=f"process-{pidx}"))
            # repetitions inside that process (sequential and in threads) are compared by the runner itself
            if rr.get("rep_differing"):
                d = rr["rep_differing"][0]
                events.append(dict(frontc.table_event(key, {"status": d["status"], "out": d.get("out"), "err": d.get("err")}, with_err=True,
                                                      mask_local_id=(kind == "local-random")),
                                   where=f"process-{pidx}-thread"))
        if bad:
            rep.violation(bad[0], {"kind": kind, "xml": vlib.trunc(xml, 1500), "cfg": cfg, **bad[1]})
    # the command's own report of a failure (message on stderr, exit status) in fresh processes
    import tempfile
    svgdx_bin, _server_bin = vlib.build_bins()
    cli_keys = {}
    with tempfile.TemporaryDirectory(dir=vlib.WORK) as wd:
        for j, (kind, xml, cfg) in enumerate(ks):
            if kind != "errors":
                continue
            key = frontc.key_of(xml, cfg) + "#cli"
            cli_keys[key] = (kind, xml, cfg)
            for pidx in range(nproc):
                ev, p = frontc.run_cli(svgdx_bin, "file-stdout", xml, cfg, wd)
                events.append({"e": "table", "key": key, "status": "ok" if p.returncode == 0 else "fail",
                               "hash": frontc.h(p.stdout if p.returncode == 0 else p.stderr), "empty": False, "where": f"cli-process-{pidx}",
                               "text": p.stderr.decode("utf-8", "replace")[:300]})
    rejected, n = frontc.validate_history(events, "c06")
    rep.notes["history_events"] = len(events)
    by_key = {frontc.key_of(xml, cfg): (kind, xml, cfg) for kind, xml, cfg in ks}
    by_key.update(cli_keys)
    for ev in rejected:
        kind, xml, cfg = by_key[ev["key"]]
        if ev["key"].endswith("#cli"):
            rep.violation("determinism:errors:cli-message-differs", {"kind": kind, "xml": vlib.trunc(xml, 2000), "cfg": cfg, "where": ev.get("where"),
                          "detail": "the svgdx command reported the same failing input differently in two fresh processes",
                          "observed_variants": list(dict.fromkeys(e.get("text") for e in events if e["key"] == ev["key"]))[:3]})
            continue
        outs = []
        for res in runs:
            for j2, (k2, x2, c2) in enumerate(ks):
                if frontc.key_of(x2, c2) == ev["key"]:
                    outs.append(res[f"k{j2}"].get("out") or res[f"k{j2}"].get("err"))
        rep.violation(f"determinism:{kind}:differs", {"kind": kind, "xml": vlib.trunc(xml, 2000), "cfg": cfg, "where": ev.get("where"),
                                                     "detail": "the same (input, configuration) gave different bytes in the recorded history "
                                                               "(TraceFrontend.tla rejects the observation)",
                                                     "observed_variants": [vlib.trunc(o, 600) for o in list(dict.fromkeys(outs))[:3]]})
    rep.traces += len(events) - len(rejected)
    rep.sample({"kind": ks[0][0], "xml": vlib.trunc(ks[0][1], 500), "cfg": ks[0][2], "observations_per_key": nproc * 7})
    rep.notes["keys"] = len(ks)
    rep.notes["observations_per_key"] = f"{nproc} fresh processes x (1 + 3 threads x 2 repetitions)"
    rep.notes["rule"] = "keys = (document, configuration); a history of repeated observations per key validated by TLC; distinct = distinct key"
    rep.notes["exhaustive"] = False


def replay(path):
    with open(path) as f:
        r = json.load(f)["replay"]
    outs = set()
    for i in range(6):
        res = vlib._run_chunk(vlib.build_runner(), [{"k": "r", "xml": r["xml"], "cfg": r.get("cfg", {})}], 60000, 4096)
        outs.add(res["r"].get("out") or res["r"].get("err"))
    print(len(outs), "distinct outputs in 6 fresh processes")
    return 0
