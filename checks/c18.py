"""C18 Reuse instantiates templates as if written out by hand.

Model: Interp.tla family "reuse": templates (shape / group, in specs, inline,
before or after use, parameterised through probes reading a / b) x sequences
of instantiations with different bindings.  TLC: output = Sem.Ideal (each
instance evaluated from the ORIGINAL target under the reuse element's
bindings, reuse attributes overriding target attributes, instances
independent, specs content never rendered).  On the real code: predicted
items; translation validation T(P) = T(Inline(P)) with Inline(P) produced by
the specification."""
import json
import random

import os
import sys

import geom
import interp
import vlib

sys.path.insert(0, os.path.dirname(os.path.abspath(__file__)))
import c09  # noqa: E402  (placement cases share C09's concretiser and oracle)


def run(rep, tier, seed):
    rep.assumptions += ["Inline(P) is computed by the specification (Sem.Ideal .unr)",
                        "placement of instances (x/y, centre, anchors, relative to another element) comes from Geom.tla ReusePosCases"]
    cmp = interp.standard_compare()
    big = tier == "thorough"
    r = interp.family_check(rep, "reuse", tier, seed, cmp, dict(MaxNodes=3), dict(MaxNodes=4),
                            devsets=[("LateEnv",)], sample_quick=4000, sample_thorough=72000,
                            need_outcomes=("ok", "ok/retried", "ref"))
    rnd = random.Random(seed)
    recs = [x for x in r.replay if x["ideal"] == "ok" and any_reuse(x["doc"])]
    k = 40000 if big else 3000
    if len(recs) > k:
        recs = rnd.sample(recs, k)
    interp.twin_check(rep, recs, seed, "c18", "inline", deviation_preds=rep.last_preds, compare=cmp)
    sim = interp.simulate_family(rep, "reuse", seed, 3000 if big else 600, cmp, devsets=[("LateEnv",)], min_size=4,
                                 MaxNodes=6, MaxDepth=4)
    interp.twin_check(rep, [x for x in sim if any_reuse(x["doc"])], seed + 3, "c18s", "inline", deviation_preds=rep.last_preds, compare=cmp)
    interp.negative_control(rep, "reuse", "LeakScopeOnError", {"ScopeBalanced", "ResultIsIdeal", "CleanAtEnd"}, MaxNodes=3)
    # placement of instances: template kind x template location x anchor x way of writing the position
    pcs = geom.run_geom_family(rep, "reusepos", tier, ["RelIdentities"])
    cases = []
    for j, c in enumerate(pcs):
        xml = c09.concretise(c, random.Random(seed * 7919 + j))
        cases.append({"k": f"c18p-{j}", "xml": xml, "case": c, "key": xml})
    geom.run_and_compare(rep, cases, c09.rel_check, "c18p")
    rep.notes["placement_cases"] = len(cases)
    rep.notes["rule"] = "every document of the reuse family within MaxNodes (TLC) with its specification-derived inlining"
    rep.notes["exhaustive"] = big


def any_reuse(doc):
    return any(n["k"] == "reuse" or any_reuse(n["ch"]) for n in doc)


def replay(path):
    with open(path) as f:
        r = json.load(f)["replay"]
    cases = [{"k": "p", "xml": r["xml"], "cfg": r.get("cfg", {})}]
    if "twin_xml" in r:
        cases.append({"k": "t", "xml": r["twin_xml"], "cfg": r.get("cfg", {})})
    res = vlib.run_cases(cases)
    print(json.dumps(res, indent=1)[:6000])
    return 0
