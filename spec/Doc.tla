------------------------------- MODULE Doc -------------------------------
(***************************************************************************)
(* Abstract svgdx documents.                                               *)
(*                                                                         *)
(* A document is a sequence of nodes; a node is a record with a kind `k`,  *)
(* a unique `id` (preorder creation number), children `ch` and the         *)
(* attributes the evaluator looks at.  Every node carries every field so   *)
(* that records are uniform; unused fields keep their defaults.            *)
(*                                                                         *)
(*   kind      concrete element                        scope  children     *)
(*   leaf      a shape (rect)                          -      -            *)
(*   g         <g a="1">                               yes    yes          *)
(*   cont      container without behaviour (a, svg..)  no     yes          *)
(*   var       <var a=".." b=".."/>                    -      -            *)
(*   loop      <loop count|while|until ...>            no     yes          *)
(*   if        <if test="..">                          no     yes          *)
(*   reuse     <reuse href="#t" a="1"/>                yes    (target)     *)
(*   specs     <specs>                                 no     yes          *)
(*   config    <config loop-limit=".." ../>  (loc: << <<"ll", 2>>, .. >>)      *)
(*   void      <g id=".."/>, <g id=".."><style/></g>: id, no bounding box        *)
(*                                                                         *)
(* Values are small naturals.  Expressions:                                *)
(*   [t:"lit",v]  literal          [t:"var",x]  $x                         *)
(*   [t:"inc",x]  {{$x + 1}}       [t:"lt",x,v] {{lt($x, v)}}              *)
(*   [t:"ge",x,v] {{ge($x, v)}}                                            *)
(*   [t:"dbl",x]  $x$x  (string mode: the value is the string's length)    *)
(*   [t:"sub",x,v] {{$x - v}}  (a condition that may be negative)          *)
(***************************************************************************)
EXTENDS Integers, Sequences, FiniteSets, TLC

\* "u" is never assigned: an undefined variable (left verbatim)
VarNames == {"a", "b", "u"}
UNDEF == -1

Lit(v) == [t |-> "lit", x |-> "-", v |-> v]
RdV(x) == [t |-> "var", x |-> x, v |-> 0]
Inc(x) == [t |-> "inc", x |-> x, v |-> 0]
Lt(x, v) == [t |-> "lt", x |-> x, v |-> v]
Ge(x, v) == [t |-> "ge", x |-> x, v |-> v]
Dbl(x) == [t |-> "dbl", x |-> x, v |-> 0]
Sub(x, v) == [t |-> "sub", x |-> x, v |-> v]      \* {{$x - v}}: negative, zero or positive (conditions only)

N0 == [id |-> 0, k |-> "leaf", ch |-> <<>>,
       ref |-> 0,         \* leaf: id of the element it is positioned against (0: none)
       rd |-> "-",        \* leaf: variable read by its probe attribute ("-": none)
       val |-> UNDEF,     \* leaf: literal probe value (used by inlined copies)
       rnd |-> FALSE,     \* leaf: probe attribute also calls random() once
       lit |-> FALSE,     \* leaf: size spelled width/height (TRUE) or wh (FALSE)
       content |-> FALSE, \* leaf/cont: written with text content instead of empty tag
       loc |-> <<>>,      \* g / reuse: attribute locals  << <<x, v>>, ... >>
       asg |-> <<>>,      \* var: assignments             << <<x, expr>>, ... >>
       form |-> "-",      \* loop: "count" | "while" | "until" | "for" (list of cnt items 1..cnt)
       cnt |-> 0,         \* loop count
       lv |-> "-",        \* loop variable
       start |-> 0, step |-> 1,
       cond |-> Lit(0),   \* loop while/until condition, if test
       href |-> 0]        \* reuse: id of the target

ContainerKinds == {"g", "cont", "loop", "if", "specs"}
ScopeKinds == {"g", "reuse"}

Leaf(i) == [N0 EXCEPT !.id = i]
Node(i, k) == [N0 EXCEPT !.id = i, !.k = k]

(***************************************************************************)
(* Tree helpers (structural recursion over nested sequences).              *)
(***************************************************************************)
RECURSIVE Size(_)
Size(list) ==
    IF list = <<>> THEN 0
    ELSE 1 + Size(Head(list).ch) + Size(Tail(list))

RECURSIVE Flatten(_)
\* all nodes of a list in preorder (children stripped is not needed)
Flatten(list) ==
    IF list = <<>> THEN <<>>
    ELSE <<Head(list)>> \o Flatten(Head(list).ch) \o Flatten(Tail(list))

NodeById(list, i) ==
    LET fl == Flatten(list)
        S == {j \in 1..Len(fl) : fl[j].id = i}
    IN IF S = {} THEN N0 ELSE fl[CHOOSE j \in S : TRUE]

HasId(list, i) == \E j \in 1..Len(Flatten(list)) : Flatten(list)[j].id = i

RECURSIVE Nesting(_)
\* element nesting depth of a list: 0 for the empty list
Nesting(list) ==
    IF list = <<>> THEN 0
    ELSE LET h == Head(list)
             d == 1 + Nesting(h.ch)
             r == Nesting(Tail(list))
         IN IF d > r THEN d ELSE r

\* Insert node `nd` as the last child at depth `d` along the rightmost path
\* (d = 0: append to the list itself).
RECURSIVE AppendAt(_, _, _)
AppendAt(list, d, nd) ==
    IF d = 0 THEN Append(list, nd)
    ELSE LET n == Len(list)
             last == list[n]
         IN [list EXCEPT ![n] = [last EXCEPT !.ch = AppendAt(last.ch, d - 1, nd)]]

\* Kinds along the rightmost path: element d (1-based) is the kind of the
\* node that a new node at depth d would become a child of.
RECURSIVE RightPath(_)
RightPath(list) ==
    IF list = <<>> THEN <<>>
    ELSE LET last == list[Len(list)]
         IN <<last.k>> \o (IF last.k \in ContainerKinds THEN RightPath(last.ch) ELSE <<>>)

RECURSIVE RightPathNodes(_)
RightPathNodes(list) ==
    IF list = <<>> THEN <<>>
    ELSE LET last == list[Len(list)]
         IN <<last>> \o (IF last.k \in ContainerKinds THEN RightPathNodes(last.ch) ELSE <<>>)

\* Depths at which a new node may be attached
AttachDepths(list) ==
    {0} \cup {d \in 1..Len(RightPath(list)) : RightPath(list)[d] \in ContainerKinds}

SeqToSet(s) == {s[i] : i \in 1..Len(s)}

=============================================================================
