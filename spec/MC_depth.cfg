SPECIFICATION Spec
CONSTANTS
  Family = "depth"
  MaxNodes = 4
  MaxDepth = 4
  DepthLimits = {2, 3}
  LoopLimits = {3}
  VarLimits = {3}
  StrMode = FALSE
  InitVal = 0
  Deviations = {}
VIEW view
INVARIANTS DepthIsNesting ScopeBalanced SpecsBalanced CleanAtEnd ResultIsIdeal EvalOnce
PROPERTIES PendingShrinks Finishes
CHECK_DEADLOCK FALSE
