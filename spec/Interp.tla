------------------------------ MODULE Interp ------------------------------
(***************************************************************************)
(* The svgdx evaluator as a state machine (src/transform.rs,               *)
(* src/context.rs, src/loop_el.rs, src/reuse.rs).                          *)
(*                                                                         *)
(* Phase "build": a document is constructed node by node (every document   *)
(* of the selected family within MaxNodes is reachable).  Phase "run": the *)
(* evaluator steps through it with an explicit call stack:                 *)
(*                                                                         *)
(*   pe frame  = one process_events/process_tags call (a sibling list with *)
(*               its retry passes)                                         *)
(*   el frame  = one SvgElement::generate_events call                      *)
(*                                                                         *)
(* `ret` is the return register between frames.  The specification states  *)
(* the INTENDED DESIGN (error-safe unwinding, limit errors fatal, a        *)
(* not-yet-positioned element is "not ready", a re-evaluated element sees  *)
(* the environment of its document position).  Each known way the pinned   *)
(* code differs is a named member of CONSTANT Deviations.                  *)
(***************************************************************************)
EXTENDS Sem

CONSTANTS
    Family,        \* which document grammar Build explores
    MaxNodes,      \* bound on document size
    MaxDepth,      \* bound on nesting while building
    DepthLimits, LoopLimits, VarLimits,   \* sets the limits are drawn from
    StrMode,       \* values are string lengths (var-limit family)
    InitVal,       \* initial value of the variables a, b (UNDEF = -1: unset)
    Deviations     \* {} = design; see below

AllDeviations == {"LeakDepthContainer", "LeakDepthOnLimit", "LeakScopeOnError",
                  "RetryLimitErrors", "StaleLookup", "LateEnv", "AtomicGroupRetry"}

ASSUME Deviations \subseteq AllDeviations

VARIABLES
    doc,       \* the document (sequence of nodes)
    lim,       \* [dl, ll, vl] limits currently in force (a <config> element may change them)
    lim0,      \* limits the run started with
    phase,     \* "build" | "run" | "done"
    stack,     \* call stack of frames
    ret,       \* return register
    depth,     \* TransformerContext.current_depth
    scopes,    \* TransformerContext.scope_stack (global scope always present)
    emap,      \* id -> "none" | "raw" | "done"   (elem_map)
    omap,      \* ids with an original registered (original_map)
    inSpecs,   \* TransformerContext.in_specs
    rng,       \* number of PRNG draws so far
    result,    \* "running" | "ok" | "err:<kind>"
    out,       \* rendered items of the finished transform
    gx,        \* id -> x coordinate of the latest registered state of the element
    px,        \* x coordinate of the previous element ("^")
    passes     \* history: number of retry passes executed (hidden by VIEW)

vars == <<doc, lim, lim0, phase, stack, ret, depth, scopes, emap, omap, inSpecs, rng, result, out, gx, px, passes>>
view == <<doc, lim, lim0, phase, stack, ret, depth, scopes, emap, omap, inSpecs, rng, result, out, gx, px>>

Ids == 1..MaxNodes
LimitKinds == {"depth", "loop", "var"}
RetNone == [s |-> "none", items |-> <<>>, kind |-> "-"]
RetOk(items) == [s |-> "ok", items |-> items, kind |-> "-"]
RetFail(kind) == [s |-> "fail", items |-> <<>>, kind |-> kind]

\* InitVal >= 0: the document starts with <var a="InitVal" b="InitVal"/>
InitNode == [Node(0, "var") EXCEPT !.asg = <<<<"a", Lit(InitVal)>>, <<"b", Lit(InitVal)>>>>]
FullDoc == IF InitVal >= 0 THEN <<InitNode>> \o doc ELSE doc

Ctx == [doc |-> FullDoc, dl |-> lim0.dl, ll |-> lim0.ll, vl |-> lim0.vl, str |-> StrMode, iv |-> UNDEF, rc |-> 1]

(***************************************************************************)
(* Build phase: families of documents                                      *)
(***************************************************************************)
Sz == Size(doc)
ExistingIds(kinds) == {m.id : m \in {x \in SeqToSet(Flatten(doc)) : x.k \in kinds}}

\* candidate nodes (id filled in by AddNode)
Choices ==
  CASE Family = "depth" ->
         \* (a shape with its text as content is exactly as deep as the shape)
         {Node(0, "leaf"), Node(0, "g"), Node(0, "cont"), [Node(0, "leaf") EXCEPT !.content = TRUE]}
         \cup {[Node(0, "reuse") EXCEPT !.href = h] : h \in ExistingIds({"leaf", "g"})}
    [] Family = "flat" ->
         {Node(0, "leaf"), [Node(0, "leaf") EXCEPT !.content = TRUE],
          Node(0, "g"), Node(0, "cont"), [Node(0, "cont") EXCEPT !.content = TRUE],
          Node(0, "specs"),
          [Node(0, "loop") EXCEPT !.form = "count", !.cnt = 1],
          [Node(0, "if") EXCEPT !.cond = Lit(1)],
          [Node(0, "var") EXCEPT !.asg = <<<<"a", Lit(1)>>>>]}
         \cup {[Node(0, "reuse") EXCEPT !.href = h] : h \in ExistingIds({"leaf"})}
    [] Family = "loop" ->
         {[Node(0, "loop") EXCEPT !.form = "count", !.cnt = c] : c \in 0..3}
         \cup {[Node(0, "loop") EXCEPT !.form = "count", !.cnt = c, !.lv = "a", !.start = 1, !.step = 2] : c \in 1..3}
         \* negative start and step (the harness additionally scales the loop variable by a dyadic factor)
         \cup {[Node(0, "loop") EXCEPT !.form = "count", !.cnt = c, !.lv = "a", !.start = -2, !.step = -2] : c \in 2..3}
         \* a step of zero: the loop variable stands still, the passes are still counted
         \cup {[Node(0, "loop") EXCEPT !.form = "count", !.cnt = c, !.lv = "a", !.start = 3, !.step = 0] : c \in 2..3}
         \* <for var="a" data="1, 2, .., c">: the items are 1..c
         \* (c = 0: the empty list, which only a variable can hold - zero passes)
         \cup {[Node(0, "loop") EXCEPT !.form = "for", !.cnt = c, !.lv = "a", !.start = 1, !.step = 1] : c \in 0..3}
         \* the count given by a variable which the body goes on to change
         \cup {[Node(0, "loop") EXCEPT !.form = "count", !.cond = RdV("b")]}
         \* ... with idx-var="b": the 0-based position of the item
         \cup {[Node(0, "loop") EXCEPT !.form = "for", !.cnt = c, !.lv = "a", !.start = 1, !.step = 1, !.rd = "b"] : c \in 2..3}
         \cup {[Node(0, "loop") EXCEPT !.form = "while", !.cond = Lt("b", c)] : c \in {0, 2, 3}}
         \cup {[Node(0, "loop") EXCEPT !.form = "until", !.cond = Ge("b", c)] : c \in {0, 2, 3}}
         \cup {[Node(0, "leaf") EXCEPT !.rd = r, !.ref = p] : r \in {"a", "b"}, p \in {0, -1}}
         \cup {[Node(0, "var") EXCEPT !.asg = <<<<"b", e>>>>] : e \in {Lit(0), Inc("b")}}
         \cup {[Node(0, "if") EXCEPT !.cond = Lt("b", 2)]}
         \* a test that reads the size of another element - one written before the <if>, or
         \* after it (then the <if> waits for it, like any element with a forward reference)
         \cup {[Node(0, "if") EXCEPT !.cond = Lit(v), !.ref = t] : v \in {0, 1}, t \in ExistingIds({"leaf"}) \cup ((Sz + 2)..MaxNodes)}
         \* conditions are "non-zero", not "positive": {{$b - 2}} is negative, zero, positive
         \cup {[Node(0, "if") EXCEPT !.cond = Sub("b", 2)],
               [Node(0, "loop") EXCEPT !.form = "while", !.cond = Sub("b", 2)],
               [Node(0, "loop") EXCEPT !.form = "until", !.cond = Sub("b", 1)]}
    [] Family = "scope" ->
         {[Node(0, "g") EXCEPT !.loc = l] : l \in {<<>>, <<<<"a", 1>>>>, <<<<"b", 2>>>>}}
         \* a group whose own attribute reads a variable that the group rebinds for its content
         \cup {[Node(0, "g") EXCEPT !.loc = <<<<"a", 1>>>>, !.rd = r] : r \in {"a", "b"}}
         \* a group attribute given through the outer variable of its own name: a="{{$a + 1}}"
         \cup {[Node(0, "g") EXCEPT !.loc = <<<<"a", 101>>>>]}
         \cup {[Node(0, "leaf") EXCEPT !.rd = r, !.ref = t] :
                   r \in {"a", "b", "u"}, t \in {0} \cup ((Sz + 2)..MaxNodes)}
         \cup {[Node(0, "var") EXCEPT !.asg = a] :
                   a \in {<<<<"a", Lit(1)>>>>, <<<<"a", Lit(2)>>>>, <<<<"b", RdV("a")>>>>,
                          <<<<"a", RdV("b")>>, <<"b", RdV("a")>>>>, <<<<"a", Lit(3)>>, <<"b", Lit(0)>>>>,
                          <<<<"a", Lit(2)>>, <<"b", RdV("a")>>>>}}
         \cup {[Node(0, "if") EXCEPT !.cond = RdV("b")]}
         \cup {[Node(0, "loop") EXCEPT !.form = "count", !.cnt = 2, !.lv = "b"]}
    [] Family = "escw" ->
         \* a subtree that is deferred by a forward reference AND assigns variables that outlive
         \* it: the design re-evaluates it in the environment of its place but cannot hand its
         \* assignments to the siblings already rendered (see DeferredWrites below)
         {[Node(0, "loop") EXCEPT !.form = "count", !.cnt = 2], [Node(0, "if") EXCEPT !.cond = Lt("b", 2)]}
         \cup {[Node(0, "leaf") EXCEPT !.rd = r, !.ref = t] : r \in {"b"}, t \in {0} \cup ((Sz + 2)..MaxNodes)}
         \cup {[Node(0, "var") EXCEPT !.asg = <<<<"b", Inc("b")>>>>]}
    [] Family = "scope0" ->
         \* no initial <var>: the first assignment may happen inside an open scope
         {[Node(0, "g") EXCEPT !.loc = l] : l \in {<<>>, <<<<"a", 1>>>>, <<<<"b", 2>>>>}}
         \cup {[Node(0, "leaf") EXCEPT !.rd = r, !.ref = t] : r \in {"a", "b"}, t \in {0} \cup ((Sz + 2)..MaxNodes)}
         \* (assignments from a possibly undefined variable are left out: the value
         \* would be the verbatim reference, whose later meaning is macro expansion)
         \cup {[Node(0, "var") EXCEPT !.asg = a] :
                   a \in {<<<<"a", Lit(2)>>>>, <<<<"b", Lit(1)>>>>, <<<<"a", Lit(3)>>, <<"b", Lit(0)>>>>}}
         \cup {[Node(0, "reuse") EXCEPT !.href = h, !.loc = l] : h \in ExistingIds({"leaf", "g"}), l \in {<<>>, <<<<"a", 3>>>>}}
         \* a reuse element positioned against a later element: the instantiation is retried
         \cup {[Node(0, "reuse") EXCEPT !.href = h, !.loc = <<<<"a", 3>>>>, !.ref = t] :
                   h \in ExistingIds({"leaf"}), t \in (Sz + 2)..MaxNodes}
    [] Family = "order" ->
         {[Node(0, "leaf") EXCEPT !.ref = t, !.lit = l] : t \in 0..MaxNodes, l \in BOOLEAN}
         \cup {Node(0, "g"), Node(0, "void")}
    [] Family = "reuse" ->
         {Node(0, "specs"), Node(0, "cont")}
         \cup {[Node(0, "g") EXCEPT !.loc = l] : l \in {<<>>, <<<<"a", 1>>>>}}
         \cup {[Node(0, "leaf") EXCEPT !.rd = r, !.ref = t] : r \in {"-", "a", "b"}, t \in {0, Sz + 2, Sz + 3} \cap (0..MaxNodes)}
         \cup {[Node(0, "reuse") EXCEPT !.href = h, !.loc = l] :
                   h \in ExistingIds({"leaf", "g"}) \cup {Sz + 2},
                   \* (<<"a", 102>>: a="{{$a + 2}}" - evaluated where the reuse element stands, then bound)
                   l \in {<<>>, <<<<"a", 2>>>>, <<<<"a", 3>>, <<"b", 1>>>>, <<<<"a", 102>>>>}}
         \cup {[Node(0, "reuse") EXCEPT !.href = h, !.loc = <<<<"a", 2>>>>, !.ref = t] :
                   h \in ExistingIds({"leaf"}), t \in (ExistingIds({"leaf"}) \cup {Sz + 2, Sz + 3}) \cap (1..MaxNodes)}
         \cup {[Node(0, "var") EXCEPT !.asg = <<<<"a", Lit(0)>>>>]}
    [] Family = "looplim" ->
         \* every loop form with iteration counts around the limit, nested in one another
         {[Node(0, "loop") EXCEPT !.form = "count", !.cnt = c] : c \in 1..3}
         \cup {[Node(0, "loop") EXCEPT !.form = "for", !.cnt = c, !.lv = "a", !.start = 1, !.step = 1] : c \in 2..3}
         \cup {[Node(0, "loop") EXCEPT !.form = "while", !.cond = Lt("b", c)] : c \in {2, 3}}
         \cup {[Node(0, "loop") EXCEPT !.form = "until", !.cond = Ge("b", c)] : c \in {2, 3}}
         \cup {[Node(0, "leaf") EXCEPT !.rd = "b"], [Node(0, "var") EXCEPT !.asg = <<<<"b", Inc("b")>>>>],
               [Node(0, "if") EXCEPT !.cond = Lt("b", 2)], Node(0, "specs")}
    [] Family = "config" ->
         \* limits set from the document, with loops / nesting / values around the new limit
         {[Node(0, "config") EXCEPT !.loc = l] : l \in {<<<<"ll", 1>>>>, <<<<"ll", 3>>>>, <<<<"dl", 2>>>>, <<<<"dl", 3>>, <<"ll", 2>>>>}}
         \cup {[Node(0, "loop") EXCEPT !.form = "count", !.cnt = c] : c \in {1, 2, 3}}
         \cup {[Node(0, "loop") EXCEPT !.form = "while", !.cond = Lt("b", 3)]}
         \cup {[Node(0, "var") EXCEPT !.asg = <<<<"b", Inc("b")>>>>]}
         \cup {Node(0, "leaf"), Node(0, "g"), Node(0, "cont")}
    [] Family = "rng" ->
         \* no references: every probe expression is evaluated exactly once per rendered element
         {[Node(0, "leaf") EXCEPT !.rnd = r, !.rd = v] : r \in BOOLEAN, v \in {"-", "a"}}
         \cup {[Node(0, "g") EXCEPT !.loc = <<<<"a", 1>>>>], Node(0, "cont")}
         \cup {[Node(0, "loop") EXCEPT !.form = "count", !.cnt = 2, !.lv = "a"]}
         \cup {[Node(0, "if") EXCEPT !.cond = Lit(1)]}
         \cup {[Node(0, "var") EXCEPT !.asg = <<<<"a", Lit(2)>>>>]}
    [] Family = "var" ->
         {[Node(0, "var") EXCEPT !.asg = <<<<"a", e>>>>] : e \in {Lit(1), Lit(2), Lit(3), Dbl("a"), RdV("a")}}
         \* a value that is already too long when it is assigned again: an attribute of an
         \* enclosing group (not limited itself), or a limit lowered after the assignment
         \* (0: the attribute is present with an EMPTY value - still a definition, which shadows)
         \cup {[Node(0, "g") EXCEPT !.loc = <<<<"a", v>>>>] : v \in {0, 2, 3}}
         \cup {[Node(0, "config") EXCEPT !.loc = <<<<"vl", 1>>>>]}
         \cup {[Node(0, "loop") EXCEPT !.form = "count", !.cnt = c] : c \in {2, 3}}
         \cup {[Node(0, "leaf") EXCEPT !.rd = "a"]}
    [] OTHER -> {}

RECURSIVE HasRef(_), EscWrites(_), AllNodesOK(_)
HasRef(nd) == (nd.k \in {"leaf", "if"} /\ nd.ref > 0)
              \/ (nd.k = "reuse")    \* a reuse may be retried when its target comes later
              \/ \E i \in 1..Len(nd.ch) : HasRef(nd.ch[i])
EscWrites(nd) == nd.k \in {"var", "config"} \/ (nd.k = "loop" /\ nd.lv # "-")
                 \/ (nd.k \in {"cont", "if", "loop", "specs"} /\ \E i \in 1..Len(nd.ch) : EscWrites(nd.ch[i]))
\* a subtree that may be re-evaluated must not write variables that escape it
AllNodesOK(list) == \A i \in 1..Len(list) :
                        /\ ~(HasRef(list[i]) /\ EscWrites(list[i]))
                        /\ AllNodesOK(list[i].ch)

\* templates inside <specs> do not themselves refer to other elements (whether
\* such a template "resolves" is not observable until it is reused)
SpecsRefFree == \A n \in SeqToSet(Flatten(doc)) :
                    n.k = "specs" => \A m \in SeqToSet(Flatten(n.ch)) : ~(m.k = "leaf" /\ m.ref # 0)

\* family-specific well-formedness of a finished document
DocOK ==
    /\ doc # <<>>
    /\ (Family # "escw" => AllNodesOK(doc))
    /\ SpecsRefFree
    /\ \A n \in SeqToSet(Flatten(doc)) :
          /\ (n.k = "leaf" /\ n.ref > 0 /\ HasId(doc, n.ref)) =>
                 /\ NodeById(doc, n.ref).k \in {"leaf", "void"} /\ n.ref # n.id
                 /\ NodeById(doc, n.ref).ref # -1
          \* the test of an <if> reads a plain, always-registered shape outside the <if> itself
          /\ (n.k = "if" /\ n.ref > 0 /\ HasId(doc, n.ref)) =>
                 /\ NodeById(doc, n.ref).k = "leaf" /\ NodeById(doc, n.ref).ref = 0
                 /\ n.ref \in RegStatic(doc) /\ ~HasId(n.ch, n.ref)
          /\ (n.k = "reuse" /\ HasId(doc, n.href)) => NodeById(doc, n.href).k \in {"leaf", "g"}
          /\ (n.k = "reuse" /\ HasId(doc, n.href)) => n.href \in RegStatic(doc)
          \* a positioned reuse: of a plain shape template, against a plain shape that is
          \* always registered and is not the template itself
          /\ (n.k = "reuse" /\ n.ref > 0) =>
                 /\ HasId(doc, n.href) /\ NodeById(doc, n.href).k = "leaf" /\ NodeById(doc, n.href).ref = 0
                 /\ n.ref # n.href
                 /\ HasId(doc, n.ref) => (/\ NodeById(doc, n.ref).k = "leaf" /\ NodeById(doc, n.ref).ref = 0
                                          /\ n.ref \in RegStatic(doc)
                                          /\ \A sp \in SeqToSet(Flatten(doc)) : sp.k = "specs" => ~HasId(sp.ch, n.ref))
          \* reference targets are always-registered nodes
          /\ (n.k = "leaf" /\ n.ref > 0 /\ HasId(doc, n.ref)) => (n.ref \in RegStatic(doc) \/ NodeById(doc, n.ref).k = "void")
          \* "^" needs an unambiguous previous element: only in documents whose
          \* rendered elements are all plain shapes, and not as the first one
          /\ (n.k = "leaf" /\ n.ref = -1) =>
                 /\ \A m \in SeqToSet(Flatten(doc)) : m.k \notin {"g", "cont", "reuse", "specs"} /\ (m.k = "leaf" => m.ref <= 0)
                 /\ doc[1].k = "leaf" /\ doc[1].ref = 0

AttachOK(d, nd) ==
    /\ d < MaxDepth
    /\ Family = "flat" => d <= 1 /\ (d = 1 => nd.k = "leaf")
    \* nothing is put inside a specs block except templates
    \* (family looplim also puts loops there: exceeding a limit is final inside <specs> too)
    /\ (d > 0 /\ RightPath(doc)[d] = "specs") => (nd.k \in {"leaf", "g"} \/ (Family = "looplim" /\ nd.k = "loop"))
    /\ (nd.k = "specs") => d = 0
    \* content-carrying elements have no element children
    /\ (d > 0 /\ RightPathNodes(doc)[d].content) => FALSE

AddNode ==
    /\ phase = "build"
    /\ Sz < MaxNodes
    /\ \E d \in AttachDepths(doc), nd \in Choices :
          /\ AttachOK(d, nd)
          /\ doc' = AppendAt(doc, d, [nd EXCEPT !.id = Sz + 1])
    /\ UNCHANGED <<lim, lim0, phase, stack, ret, depth, scopes, emap, omap, inSpecs, rng, result, out, gx, px, passes>>

DoneSet == {i \in Ids : emap[i] = "done"}
NewPe(kids) == [t |-> "pe", kids |-> kids, todo |-> [i \in 1..Len(kids) |-> i], i |-> 1,
                rem |-> <<>>, res |-> [i \in 1..Len(kids) |-> <<>>],
                snap |-> [i \in 1..Len(kids) |-> <<>>], cur |-> <<>>, pass |-> 1,
                seen |-> DoneSet]

NewEl(nd, inst) == [t |-> "el", nd |-> nd, ph |-> "enter", it |-> 0, lvv |-> 0, acc |-> <<>>,
                    sd |-> depth, sh |-> Len(scopes), ss |-> inSpecs, inst |-> inst]

BuildDone ==
    /\ phase = "build"
    /\ DocOK
    /\ phase' = "run"
    /\ stack' = <<NewPe(FullDoc)>>
    /\ UNCHANGED <<doc, lim, lim0, ret, depth, scopes, emap, omap, inSpecs, rng, result, out, gx, px, passes>>

(***************************************************************************)
(* Run phase                                                               *)
(***************************************************************************)
Top == stack[Len(stack)]
Below == SubSeq(stack, 1, Len(stack) - 1)
SetTopFrame(f) == [stack EXCEPT ![Len(stack)] = f]
Running == phase = "run" /\ stack # <<>>
Dev(d) == d \in Deviations

IdKinds == {"leaf", "g", "void"}

\* --- pe frame: process_tags ------------------------------------------------

\* early registration of the next pending tag, then call generate_events
TagRegister ==
    /\ Running /\ Top.t = "pe" /\ ret.s = "none" /\ Top.i <= Len(Top.todo)
    /\ LET f == Top
           pos == f.todo[f.i]
           nd == f.kids[pos]
           first == f.pass = 1
           \* design: an element is (re-)evaluated in the environment of its
           \* document position; the pinned code uses the current one
           env == IF first \/ Dev("LateEnv") THEN scopes ELSE f.snap[pos]
           f2 == [f EXCEPT !.snap[pos] = IF first THEN scopes ELSE @,
                           !.cur = scopes]
       IN /\ emap' = IF nd.k \in IdKinds THEN [emap EXCEPT ![nd.id] = "raw"] ELSE emap
          /\ omap' = IF nd.k \in IdKinds THEN omap \cup {nd.id} ELSE omap
          /\ scopes' = env
          /\ stack' = Append(SetTopFrame(f2), [NewEl(nd, FALSE) EXCEPT !.sh = Len(env)])
    /\ UNCHANGED <<doc, lim, lim0, phase, ret, depth, inSpecs, rng, result, out, gx, px, passes>>

\* scopes after a tag has been dealt with (design: later siblings continue
\* from the environment the pass had reached)
AfterTag(f, newScopes) ==
    IF f.pass = 1 \/ Dev("LateEnv") THEN newScopes ELSE f.cur

TagOk ==
    /\ Running /\ Top.t = "pe" /\ ret.s = "ok"
    /\ LET f == Top
           pos == f.todo[f.i]
       IN /\ stack' = SetTopFrame([f EXCEPT !.res[pos] = IF inSpecs THEN <<>> ELSE ret.items,
                                            !.i = @ + 1])
          /\ scopes' = AfterTag(f, scopes)
    /\ ret' = RetNone
    /\ UNCHANGED <<doc, lim, lim0, phase, depth, emap, omap, inSpecs, rng, result, out, gx, px, passes>>

TagFail ==
    /\ Running /\ Top.t = "pe" /\ ret.s = "fail"
    /\ LET f == Top
           pos == f.todo[f.i]
           \* design: a failed attempt leaves no trace in the environment
           restored == IF Dev("LeakScopeOnError") \/ Dev("LateEnv") THEN scopes
                       ELSE IF f.pass = 1 THEN f.snap[pos] ELSE f.cur
       IN IF ret.kind \in LimitKinds /\ ~Dev("RetryLimitErrors")
          THEN \* design: limit errors are fatal, never retried - inside <specs> too
               /\ stack' = Below
               /\ ret' = ret
               /\ scopes' = restored
          ELSE IF inSpecs
          THEN \* inside <specs> other errors are ignored (and nothing is queued)
               /\ stack' = SetTopFrame([f EXCEPT !.i = @ + 1])
               /\ ret' = RetNone
               /\ scopes' = restored
          ELSE /\ stack' = SetTopFrame([f EXCEPT !.rem = Append(@, pos), !.i = @ + 1])
               /\ ret' = RetNone
               /\ scopes' = restored
    /\ UNCHANGED <<doc, lim, lim0, phase, depth, emap, omap, inSpecs, rng, result, out, gx, px, passes>>

RECURSIVE ConcatRes(_, _)
ConcatRes(res, i) == IF i > Len(res) THEN <<>> ELSE res[i] \o ConcatRes(res, i + 1)

PassEnd ==
    /\ Running /\ Top.t = "pe" /\ ret.s = "none" /\ Top.i > Len(Top.todo)
    /\ LET f == Top
       IN IF f.rem = <<>>
          THEN /\ stack' = Below
               /\ ret' = RetOk(ConcatRes(f.res, 1))
               /\ passes' = passes
          ELSE IF Len(f.rem) = Len(f.todo)
                  /\ (Dev("AtomicGroupRetry") \/ DoneSet \subseteq f.seen)
          THEN \* no progress: MultiError.  Design: progress is a shorter pending
               \* list OR an element positioned for the first time (possibly inside
               \* a failed container); the pinned code only counts the former.
               /\ stack' = Below
               /\ ret' = RetFail("ref")
               /\ passes' = passes
          ELSE /\ stack' = SetTopFrame([f EXCEPT !.todo = f.rem, !.rem = <<>>, !.i = 1, !.pass = @ + 1,
                                                 !.seen = @ \cup DoneSet])
               /\ ret' = RetNone
               /\ passes' = passes + 1
    /\ UNCHANGED <<doc, lim, lim0, phase, depth, scopes, emap, omap, inSpecs, rng, result, out, gx, px>>

\* --- el frame: SvgElement::generate_events -----------------------------------

\* leave the element with an error
FailWith(kind) ==
    LET f == Top
        leakD == \/ (kind = "depth" /\ f.ph = "enter" /\ Dev("LeakDepthOnLimit"))
                 \/ (f.nd.k = "cont" /\ f.ph # "enter" /\ Dev("LeakDepthContainer"))
        leakS == Dev("LeakScopeOnError") /\ f.nd.k = "g"
    IN /\ stack' = Below
       /\ ret' = RetFail(kind)
       /\ depth' = IF leakD THEN (IF f.ph = "enter" THEN depth + 1 ELSE depth) ELSE f.sd
       /\ scopes' = IF leakS THEN scopes ELSE SubSeq(scopes, 1, f.sh)
       /\ inSpecs' = f.ss

ElEnter ==
    /\ Running /\ Top.t = "el" /\ Top.ph = "enter"
    /\ IF depth + 1 > lim.dl
       THEN /\ FailWith("depth")
            /\ UNCHANGED <<doc, lim, lim0, phase, emap, omap, rng, result, out, gx, px, passes>>
       ELSE /\ depth' = depth + 1
            /\ stack' = SetTopFrame([Top EXCEPT !.ph = "body"])
            /\ UNCHANGED <<doc, lim, lim0, phase, ret, scopes, emap, omap, inSpecs, rng, result, out, gx, px, passes>>

ElExit ==
    /\ Running /\ Top.t = "el" /\ Top.ph = "exit"
    /\ depth' = IF Top.nd.k = "cont" /\ Dev("LeakDepthContainer") THEN depth ELSE depth - 1
    /\ stack' = Below
    /\ ret' = RetOk(Top.acc)
    /\ UNCHANGED <<doc, lim, lim0, phase, scopes, emap, omap, inSpecs, rng, result, out, gx, px, passes>>

Body(k) == Running /\ Top.t = "el" /\ Top.ph = "body" /\ Top.nd.k = k
Wait(k, s) == Running /\ Top.t = "el" /\ Top.ph = "wait" /\ Top.nd.k = k /\ ret.s = s

ChildFail ==
    /\ Running /\ Top.t = "el" /\ Top.ph = "wait" /\ ret.s = "fail"
    /\ FailWith(ret.kind)
    /\ UNCHANGED <<doc, lim, lim0, phase, emap, omap, rng, result, out, gx, px, passes>>

\* resolve position of a shape against the element map, render it
LeafResolve ==
    /\ Body("leaf")
    /\ LET f == Top
           nd == f.nd
           t == nd.ref
           st == IF t <= 0 \/ t \notin Ids THEN "none" ELSE emap[t]
           v == IF nd.rd = "-" THEN nd.val ELSE Lookup(scopes, nd.rd)
           \* pinned code: a registered-but-unpositioned target whose size is
           \* spelled width/height yields a bounding box at the default origin
           stale == t > 0 /\ st = "raw" /\ Dev("StaleLookup") /\ NodeById(doc, t).lit
           ready == t <= 0 \/ st = "done" \/ stale
           x == CASE t = 0 -> 3 * nd.id
                  [] t = -1 -> px + 3
                  [] OTHER -> (IF stale THEN 0 ELSE gx[t]) + 3
       IN IF ~ready
          THEN /\ FailWith("ref")
               /\ UNCHANGED <<emap, rng, gx, px>>
          ELSE /\ emap' = IF f.inst THEN emap ELSE [emap EXCEPT ![nd.id] = "done"]
               /\ gx' = IF f.inst THEN gx ELSE [gx EXCEPT ![nd.id] = x]
               /\ px' = x
               /\ rng' = IF nd.rnd THEN rng + 1 ELSE rng
               /\ stack' = SetTopFrame([f EXCEPT !.ph = "exit",
                                                 !.acc = <<[id |-> nd.id, v |-> v, x |-> x, stale |-> stale]>>])
               /\ UNCHANGED <<ret, depth, scopes, inSpecs>>
    /\ UNCHANGED <<doc, lim, lim0, phase, omap, result, out, passes>>

\* the group's own attributes (its probe, nd.rd) are evaluated in the ENCLOSING scope,
\* before its locals are pushed for the descendants
GroupPush ==
    /\ Body("g")
    /\ scopes' = Append(scopes, ScopeOf(Resolve(Top.nd.loc, scopes)))
    /\ LET own == IF Top.nd.rd = "-" THEN <<>>
                  ELSE <<[id |-> Top.nd.id, v |-> Lookup(scopes, Top.nd.rd), x |-> 0, stale |-> FALSE]>>
       IN stack' = Append(SetTopFrame([Top EXCEPT !.ph = "wait", !.acc = own]), NewPe(Top.nd.ch))
    /\ UNCHANGED <<doc, lim, lim0, phase, ret, depth, emap, omap, inSpecs, rng, result, out, gx, px, passes>>

GroupPop ==
    /\ Wait("g", "ok")
    /\ scopes' = SubSeq(scopes, 1, Len(scopes) - 1)
    /\ emap' = IF Top.inst THEN emap ELSE [emap EXCEPT ![Top.nd.id] = "done"]
    /\ stack' = SetTopFrame([Top EXCEPT !.ph = "exit", !.acc = Top.acc \o ret.items])
    /\ ret' = RetNone
    /\ UNCHANGED <<doc, lim, lim0, phase, depth, omap, inSpecs, rng, result, out, gx, px, passes>>

ContBody ==
    /\ Body("cont")
    /\ stack' = Append(SetTopFrame([Top EXCEPT !.ph = "wait"]), NewPe(Top.nd.ch))
    /\ UNCHANGED <<doc, lim, lim0, phase, ret, depth, scopes, emap, omap, inSpecs, rng, result, out, gx, px, passes>>

ContDone ==
    /\ Wait("cont", "ok")
    /\ stack' = SetTopFrame([Top EXCEPT !.ph = "exit", !.acc = ret.items])
    /\ ret' = RetNone
    /\ UNCHANGED <<doc, lim, lim0, phase, depth, scopes, emap, omap, inSpecs, rng, result, out, gx, px, passes>>

\* an element with an id but nothing to measure (an empty group, a group holding only
\* <style>): registered, never positioned - a reference to it cannot be satisfied
VoidDone ==
    /\ Body("void")
    /\ stack' = SetTopFrame([Top EXCEPT !.ph = "exit"])
    /\ UNCHANGED <<doc, lim, lim0, phase, ret, depth, scopes, emap, omap, inSpecs, rng, result, out, gx, px, passes>>

VarAssign ==
    /\ Body("var")
    /\ IF StrMode /\ MaxAssigned(Top.nd.asg, scopes) > lim.vl
       THEN /\ FailWith("var")
       ELSE /\ scopes' = AssignTop(scopes, Top.nd.asg)
            /\ stack' = SetTopFrame([Top EXCEPT !.ph = "exit"])
            /\ UNCHANGED <<ret, depth, inSpecs>>
    /\ UNCHANGED <<doc, lim, lim0, phase, emap, omap, rng, result, out, gx, px, passes>>

\* <config>: the limits of the rest of the run
ConfigApply ==
    /\ Body("config")
    /\ lim' = ApplyConfig(lim, Top.nd.loc)
    /\ stack' = SetTopFrame([Top EXCEPT !.ph = "exit"])
    /\ UNCHANGED <<doc, lim0, phase, ret, depth, scopes, emap, omap, inSpecs, rng, result, out, gx, px, passes>>

\* (a test that reads an element not yet positioned cannot be evaluated: the <if> fails
\* for now and is retried - it is NOT taken for false)
IfTest ==
    /\ Body("if")
    /\ LET t == Top.nd.ref
           st == IF t <= 0 \/ t \notin Ids THEN "none" ELSE emap[t]
       IN IF t > 0 /\ st # "done"
          THEN FailWith("ref")
          ELSE /\ IF EvalE(Top.nd.cond, scopes) # 0
                  THEN stack' = Append(SetTopFrame([Top EXCEPT !.ph = "wait"]), NewPe(Top.nd.ch))
                  ELSE stack' = SetTopFrame([Top EXCEPT !.ph = "exit"])
               /\ UNCHANGED <<ret, depth, scopes, inSpecs>>
    /\ UNCHANGED <<doc, lim, lim0, phase, emap, omap, rng, result, out, gx, px, passes>>

IfDone ==
    /\ Wait("if", "ok")
    /\ stack' = SetTopFrame([Top EXCEPT !.ph = "exit", !.acc = ret.items])
    /\ ret' = RetNone
    /\ UNCHANGED <<doc, lim, lim0, phase, depth, scopes, emap, omap, inSpecs, rng, result, out, gx, px, passes>>

LoopInit ==
    /\ Body("loop")
    /\ stack' = SetTopFrame([Top EXCEPT !.ph = "test", !.it = 0, !.lvv = Top.nd.start, !.nd = FixCount(Top.nd, scopes)])
    /\ UNCHANGED <<doc, lim, lim0, phase, ret, depth, scopes, emap, omap, inSpecs, rng, result, out, gx, px, passes>>

\* loop head: test (count / while), bind the loop variable, run the body
LoopTest ==
    /\ Running /\ Top.t = "el" /\ Top.ph = "test"
    /\ LET f == Top
           nd == f.nd
           go == CASE nd.form \in {"count", "for"} -> f.it < nd.cnt
                   [] nd.form = "while" -> EvalE(nd.cond, scopes) # 0
                   [] OTHER -> TRUE
       IN IF go
          THEN /\ scopes' = LET s1 == IF nd.lv # "-" THEN SetTop(scopes, nd.lv, f.lvv) ELSE scopes
                              IN IF nd.form = "for" /\ nd.rd # "-" THEN SetTop(s1, nd.rd, f.it) ELSE s1
               /\ stack' = Append(SetTopFrame([f EXCEPT !.ph = "wait"]), NewPe(nd.ch))
          ELSE /\ scopes' = scopes
               /\ stack' = SetTopFrame([f EXCEPT !.ph = "exit"])
    /\ UNCHANGED <<doc, lim, lim0, phase, ret, depth, emap, omap, inSpecs, rng, result, out, gx, px, passes>>

\* after the body: until-test, count the iteration, check the limit
LoopAdvance ==
    /\ Wait("loop", "ok")
    /\ LET f == Top
           nd == f.nd
           acc == f.acc \o ret.items
       IN IF f.it + 1 > lim.ll
          THEN \* the pass just made counts, whether or not `until` would end the loop
               FailWith("loop")
          ELSE IF nd.form = "until" /\ EvalE(nd.cond, scopes) # 0
          THEN /\ stack' = SetTopFrame([f EXCEPT !.ph = "exit", !.acc = acc])
               /\ ret' = RetNone
               /\ UNCHANGED <<depth, scopes, inSpecs>>
          ELSE /\ stack' = SetTopFrame([f EXCEPT !.ph = "test", !.acc = acc, !.it = @ + 1,
                                                 !.lvv = @ + nd.step])
               /\ ret' = RetNone
               /\ UNCHANGED <<depth, scopes, inSpecs>>
    /\ UNCHANGED <<doc, lim, lim0, phase, emap, omap, rng, result, out, gx, px, passes>>

\* <reuse>: bind attributes, instantiate the ORIGINAL of the target
ReusePush ==
    /\ Body("reuse")
    /\ LET f == Top
           h == f.nd.href
       IN IF h \notin omap
          THEN /\ FailWith("ref")
          ELSE /\ scopes' = Append(scopes, ScopeOf(Resolve(f.nd.loc, scopes)))
               /\ stack' = Append(SetTopFrame([f EXCEPT !.ph = "wait"]),
                                  [NewEl(Instance(NodeById(doc, h), [f.nd EXCEPT !.loc = Resolve(@, scopes)]), TRUE) EXCEPT !.sh = Len(scopes) + 1])
               /\ UNCHANGED <<ret, depth, inSpecs>>
    /\ UNCHANGED <<doc, lim, lim0, phase, emap, omap, rng, result, out, gx, px, passes>>

ReusePop ==
    /\ Wait("reuse", "ok")
    /\ scopes' = SubSeq(scopes, 1, Len(scopes) - 1)
    /\ stack' = SetTopFrame([Top EXCEPT !.ph = "exit", !.acc = ret.items])
    /\ ret' = RetNone
    /\ UNCHANGED <<doc, lim, lim0, phase, depth, emap, omap, inSpecs, rng, result, out, gx, px, passes>>

SpecsEnter ==
    /\ Body("specs")
    /\ IF inSpecs
       THEN /\ FailWith("document")
       ELSE /\ inSpecs' = TRUE
            /\ stack' = Append(SetTopFrame([Top EXCEPT !.ph = "wait"]), NewPe(Top.nd.ch))
            /\ UNCHANGED <<ret, depth, scopes>>
    /\ UNCHANGED <<doc, lim, lim0, phase, emap, omap, rng, result, out, gx, px, passes>>

SpecsExit ==
    /\ Wait("specs", "ok")
    /\ inSpecs' = FALSE
    /\ stack' = SetTopFrame([Top EXCEPT !.ph = "exit", !.acc = <<>>])
    /\ ret' = RetNone
    /\ UNCHANGED <<doc, lim, lim0, phase, depth, scopes, emap, omap, rng, result, out, gx, px, passes>>

Finish ==
    /\ phase = "run" /\ stack = <<>> /\ ret.s # "none"
    /\ phase' = "done"
    /\ result' = IF ret.s = "ok" THEN "ok" ELSE ret.kind
    /\ out' = ret.items
    /\ UNCHANGED <<doc, lim, lim0, stack, ret, depth, scopes, emap, omap, inSpecs, rng, gx, px, passes>>

RunNext ==
    \/ TagRegister \/ TagOk \/ TagFail \/ PassEnd
    \/ ElEnter \/ ElExit \/ ChildFail
    \/ LeafResolve \/ GroupPush \/ GroupPop \/ ContBody \/ ContDone
    \/ VarAssign \/ ConfigApply \/ IfTest \/ IfDone \/ VoidDone
    \/ LoopInit \/ LoopTest \/ LoopAdvance
    \/ ReusePush \/ ReusePop \/ SpecsEnter \/ SpecsExit
    \/ Finish

Next == AddNode \/ BuildDone \/ RunNext

Init ==
    /\ doc = <<>>
    /\ lim \in [dl : DepthLimits, ll : LoopLimits, vl : VarLimits]
    /\ lim0 = lim
    /\ phase = "build"
    /\ stack = <<>> /\ ret = RetNone
    /\ depth = 0 /\ scopes = <<InitScope(UNDEF)>>
    /\ emap = [i \in Ids |-> "none"] /\ omap = {}
    /\ inSpecs = FALSE /\ rng = 0
    /\ result = "running" /\ out = <<>> /\ passes = 0
    /\ gx = [i \in Ids |-> 0] /\ px = 0

Spec == Init /\ [][Next]_vars /\ WF_vars(RunNext)

(***************************************************************************)
(* Properties of the design                                                *)
(***************************************************************************)
Frames(P(_)) == Cardinality({i \in 1..Len(stack) : P(stack[i])})
IsOpenEl(f) == f.t = "el" /\ f.ph # "enter"
IsOpenScope(f) == f.t = "el" /\ f.ph = "wait" /\ f.nd.k \in ScopeKinds
IsOpenSpecs(f) == f.t = "el" /\ f.ph = "wait" /\ f.nd.k = "specs"

\* C17 anchor: the depth counter equals the number of open elements
DepthIsNesting == phase = "run" => depth = Frames(IsOpenEl)
\* C15 anchor: the scope stack height equals global + open scoping elements
ScopeBalanced == phase = "run" => Len(scopes) = 1 + Frames(IsOpenScope)
SpecsBalanced == phase = "run" => (inSpecs <=> Frames(IsOpenSpecs) > 0)

CleanAtEnd == phase = "done" => depth = 0 /\ Len(scopes) = 1 /\ ~inSpecs

IdealNow == Ideal(FullDoc, Ctx)
Proj(items) == [i \in 1..Len(items) |-> [id |-> items[i].id, v |-> items[i].v, x |-> items[i].x]]
NoStale(items) == \A i \in 1..Len(items) : ~items[i].stale

\* The observable outcome equals the reference meaning: result class (C17
\* LimitExact, C10 unsatisfiable => error), rendered items with the values
\* their probes read (C15 LexicalScoping, C16, C18), in document order.
\* (Family "escw" admits documents in which a deferred subtree assigns variables that
\* outlive it.  There the design keeps the two halves of C15 it can keep - the subtree is
\* evaluated in the environment of its place, and a failed attempt leaves no trace - but
\* the siblings after it were rendered before its assignments existed: the outcome may
\* differ from the reference meaning.  Recorded as the finding DeferredWrites.)
ResultIsIdeal ==
    (phase = "done" /\ AllNodesOK(doc)) =>
        LET I == IdealNow
        IN /\ result \in {I.res} \cup (IF I.res \in LimitKinds /\ ~RefsOK(I.refs, FullDoc) THEN {"ref"} ELSE {})
           /\ result = "ok" => Proj(out) = I.items /\ NoStale(out)

\* ... and in every document the part rendered BEFORE the first deferred writer agrees with
\* the reference meaning: the prefix of items up to the first node that both refers forward
\* and writes is untouched
FirstEsc(list) == IF \E i \in 1..Len(list) : HasRef(list[i]) /\ EscWrites(list[i])
                  THEN CHOOSE i \in 1..Len(list) : HasRef(list[i]) /\ EscWrites(list[i])
                                                   /\ \A j \in 1..(i - 1) : ~(HasRef(list[j]) /\ EscWrites(list[j]))
                  ELSE Len(list) + 1
PrefixIdeal ==
    (phase = "done" /\ result = "ok" /\ IdealNow.res = "ok") =>
        LET I == IdealNow
            before == {n.id : n \in SeqToSet(Flatten(SubSeq(doc, 1, FirstEsc(doc) - 1)))}
            P(items) == SelectSeq(items, LAMBDA it : it.id \in before)
        IN P(Proj(out)) = P(I.items)

\* C14: without references every probe expression is evaluated exactly once
EvalOnce ==
    (phase = "done" /\ result = "ok" /\ IdealNow.refs = {}
        /\ \A n \in SeqToSet(Flatten(doc)) : n.k # "reuse")
        => rng = IdealNow.rng

\* C10 / C01: between consecutive passes of one list the pending set shrinks
PendingShrinks ==
    [][(Running /\ stack' # <<>> /\ Len(stack') = Len(stack) /\ Top.t = "pe"
            /\ stack'[Len(stack')].t = "pe" /\ stack'[Len(stack')].pass > Top.pass)
        => \/ Len(stack'[Len(stack')].todo) < Len(Top.todo)
           \/ /\ Len(stack'[Len(stack')].todo) = Len(Top.todo)
              /\ Top.seen # stack'[Len(stack')].seen /\ Top.seen \subseteq stack'[Len(stack')].seen]_vars

Finishes == (phase = "run") ~> (phase = "done")

=============================================================================
