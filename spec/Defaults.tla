------------------------------ MODULE Defaults ------------------------------
(***************************************************************************)
(* The <defaults> element (docs/mdbook/src/reference/element-ref.md,       *)
(* "defaults").  Not the subject of a listed property: part of growing the *)
(* specification over the behaviour of the system.                         *)
(*                                                                         *)
(* A rule is an element inside a <defaults> block: its name selects the    *)
(* element kind ("_" any), its `match` attribute holds selectors (name,    *)
(* .class, name.class) and the flags init / final, its other attributes    *)
(* and classes are the defaults.  Rules of outer scopes come before rules  *)
(* of inner scopes; within a scope in document order.  For an element:     *)
(*   - later matches override earlier ones (attributes) or add to them     *)
(*     (classes, and the list-like attribute `style`)                      *)
(*   - `init` on a matching rule forgets everything matched before         *)
(*   - `final` on a matching rule ends the matching                        *)
(*   - the element's own attributes win; its own style comes last          *)
(***************************************************************************)
EXTENDS Integers, Sequences, FiniteSets, TLC

CONSTANTS Tier
VARIABLE c

Names == {"rect", "_"}
Sels == {"none", ".k", "circle", "rect.k"}
\* the payload of the i-th rule: an attribute all rules set, one only it sets, a class, a style
Payload(i) == [fill |-> i, own |-> i, class |-> i, style |-> i]
Rules(i) == {[name |-> n, sel |-> s, init |-> a, final |-> z, p |-> Payload(i)] : n \in Names, s \in Sels, a \in BOOLEAN, z \in BOOLEAN}

Elements == {[name |-> n, k |-> k, fill |-> f, style |-> st] : n \in {"rect", "circle"}, k \in BOOLEAN, f \in BOOLEAN, st \in BOOLEAN}

SelMatches(s, el) == CASE s = "none" -> TRUE [] s = ".k" -> el.k [] s = "circle" -> el.name = "circle" [] OTHER -> el.name = "rect" /\ el.k
Matches(r, el) == (r.name = "_" \/ r.name = el.name) /\ SelMatches(r.sel, el)

\* accumulated defaults: fill = 0 (none) or the index of the rule that gave it; owns, classes, styles: sequences of indices
Empty == [fill |-> 0, owns |-> <<>>, classes |-> <<>>, styles |-> <<>>]
Merge(acc, r) ==
    IF r.init THEN [fill |-> r.p.fill, owns |-> <<r.p.own>>, classes |-> <<r.p.class>>, styles |-> <<r.p.style>>]
    ELSE [fill |-> r.p.fill, owns |-> Append(acc.owns, r.p.own), classes |-> Append(acc.classes, r.p.class), styles |-> Append(acc.styles, r.p.style)]
RECURSIVE Apply(_, _, _)
Apply(rules, el, acc) ==
    IF rules = <<>> THEN acc
    ELSE LET r == Head(rules)
         IN IF ~Matches(r, el) THEN Apply(Tail(rules), el, acc)
            ELSE IF r.final THEN Merge(acc, r) ELSE Apply(Tail(rules), el, Merge(acc, r))

\* what the element ends up with: fill - its own ("own") or the last matching rule's; the set of
\* rule-specific attributes; the classes added; the styles in order, its own last
Result(rules, el) ==
    LET a == Apply(rules, el, Empty)
    IN [fill |-> IF el.fill THEN "own" ELSE IF a.fill = 0 THEN "none" ELSE "rule" \o ToString(a.fill),
        owns |-> {a.owns[i] : i \in 1..Len(a.owns)},
        classes |-> {a.classes[i] : i \in 1..Len(a.classes)},
        styles |-> a.styles,
        ownstyle |-> el.style]

\* two rules in the outer scope, one in an inner scope (a <g>); the element sits in the inner
\* scope, or after it (then the inner rule must not apply any more)
Where == {"inner", "after-inner"}
Cases ==
    {[fam |-> "defaults", r1 |-> r1, r2 |-> r2, r3 |-> r3, el |-> el, where |-> w,
      exp |-> Result(IF w = "inner" THEN <<r1, r2, r3>> ELSE <<r1, r2>>, el)] :
        r1 \in Rules(1), r2 \in (IF Tier = "quick" THEN {r \in Rules(2) : r.sel \in {"none", ".k"}} ELSE Rules(2)),
        r3 \in {r \in Rules(3) : r.name = "_" /\ r.sel \in {"none", "rect.k"}}, el \in Elements, w \in Where}

Init == c \in Cases
Next == UNCHANGED c
Spec == Init /\ [][Next]_c

\* statements of the reference, checked on every case
OwnWins == c.el.fill => c.exp.fill = "own"
\* a final rule that matches hides everything after it
FinalStops == (c.r1.final /\ Matches(c.r1, c.el)) => c.exp.owns = {1} /\ c.exp.classes = {1}
\* an init rule that matches hides everything before it
InitForgets == (c.where = "inner" /\ c.r3.init /\ Matches(c.r3, c.el)
                    /\ ~(c.r1.final /\ Matches(c.r1, c.el)) /\ ~(c.r2.final /\ Matches(c.r2, c.el)))
                   => c.exp.owns = {3} /\ c.exp.styles = <<3>>
\* leaving the scope takes its rules away
Scoped == c.where = "after-inner" => 3 \notin c.exp.owns
=============================================================================
