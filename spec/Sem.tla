------------------------------- MODULE Sem -------------------------------
(***************************************************************************)
(* Declarative reference meaning of a document ("Ideal"): one pass in       *)
(* document order, lexical scoping, references always resolvable when the  *)
(* target exists, limits exact.  No retry, no registration states: this is *)
(* what the properties say the observable outcome has to be.  It also      *)
(* produces the mechanically unrolled / inlined twin of the document       *)
(* (C16, C18).                                                             *)
(***************************************************************************)
EXTENDS Doc

EmptyScope == [x \in VarNames |-> UNDEF]

RECURSIVE LookupFrom(_, _, _)
LookupFrom(scopes, i, x) ==
    IF i = 0 THEN UNDEF
    ELSE IF scopes[i][x] # UNDEF THEN scopes[i][x]
    ELSE LookupFrom(scopes, i - 1, x)

Lookup(scopes, x) == LookupFrom(scopes, Len(scopes), x)

EvalE(e, scopes) ==
    CASE e.t = "lit" -> e.v
      [] e.t = "var" -> Lookup(scopes, e.x)
      [] e.t = "inc" -> Lookup(scopes, e.x) + 1
      [] e.t = "lt"  -> IF Lookup(scopes, e.x) < e.v THEN 1 ELSE 0
      [] e.t = "ge"  -> IF Lookup(scopes, e.x) >= e.v THEN 1 ELSE 0
      [] e.t = "dbl" -> 2 * Lookup(scopes, e.x)
      [] e.t = "sub" -> Lookup(scopes, e.x) - e.v
      [] OTHER -> UNDEF

\* scope built from attribute locals << <<x, v>>, ... >>
RECURSIVE ScopeOf(_)
ScopeOf(loc) ==
    IF loc = <<>> THEN EmptyScope
    ELSE [ScopeOf(Tail(loc)) EXCEPT ![Head(loc)[1]] = Head(loc)[2]]

\* An attribute local may be given by an expression over the ENCLOSING scope: the value
\* 100 + k stands for x="{{$x + k}}" - the variable of the same name further out, plus k.
\* Resolve replaces such entries by their values in the scopes `sc` (those in force where the
\* element stands - not the scope the element opens).
RECURSIVE Resolve(_, _)
Resolve(loc, sc) ==
    IF loc = <<>> THEN <<>>
    ELSE LET x == Head(loc)[1]  v == Head(loc)[2]
         IN <<(IF v >= 100 THEN <<x, Lookup(sc, x) + (v - 100)>> ELSE Head(loc))>> \o Resolve(Tail(loc), sc)

\* parallel assignment into the innermost scope
RECURSIVE AssignAll(_, _, _)
AssignAll(scope, asg, scopes) ==
    IF asg = <<>> THEN scope
    ELSE AssignAll([scope EXCEPT ![Head(asg)[1]] = EvalE(Head(asg)[2], scopes)],
                   Tail(asg), scopes)

AssignTop(scopes, asg) ==
    [scopes EXCEPT ![Len(scopes)] = AssignAll(scopes[Len(scopes)], asg, scopes)]

SetTop(scopes, x, v) == [scopes EXCEPT ![Len(scopes)] = [@ EXCEPT ![x] = v]]

MaxAssigned(asg, scopes) ==
    LET S == {EvalE(asg[i][2], scopes) : i \in 1..Len(asg)}
    IN IF S = {} THEN 0 ELSE CHOOSE m \in S : \A o \in S : o <= m

\* <reuse a="3"> of a target that itself carries a="1": the target's attribute
\* is a default which the reuse element's attribute overrides
RECURSIVE Override(_, _)
Override(tloc, rloc) ==
    IF tloc = <<>> THEN <<>>
    ELSE LET x == Head(tloc)[1]
             S == {i \in 1..Len(rloc) : rloc[i][1] = x}
             v == IF S = {} THEN Head(tloc)[2] ELSE rloc[CHOOSE i \in S : \A j \in S : j <= i][2]
         IN <<<<x, v>>>> \o Override(Tail(tloc), rloc)

\* a reuse element positioned against another element (ref > 0) places its
\* instance there: the instance is the target positioned by the reuse element
Instance(tgt, reuse) == [tgt EXCEPT !.loc = Override(tgt.loc, reuse.loc),
                                    !.ref = IF reuse.ref > 0 THEN reuse.ref ELSE @]

\* ids that are certainly registered at some point: leaf / g nodes not below
\* a conditional or a loop (the generators keep reference targets there)
RECURSIVE RegStatic(_)
RegStatic(list) ==
    IF list = <<>> THEN {}
    ELSE LET h == Head(list)
             own == IF h.k \in {"leaf", "g"} THEN {h.id} ELSE {}
             sub == IF h.k \in {"g", "cont", "specs"} THEN RegStatic(h.ch) ELSE {}
         IN own \cup sub \cup RegStatic(Tail(list))

\* x coordinate of the (static) element `i`: follows references; `fuel`
\* guards against cyclic references (those make the document fail anyway)
RECURSIVE XOf(_, _, _)
XOf(flat, i, fuel) ==
    LET S == {j \in 1..Len(flat) : flat[j].id = i}
    IN IF S = {} \/ fuel = 0 THEN 0
       ELSE LET n == flat[CHOOSE j \in S : TRUE]
            IN IF n.ref > 0 THEN XOf(flat, n.ref, fuel - 1) + 3 ELSE 3 * n.id

(***************************************************************************)
(* Ideal evaluation.  C = [doc, dl, ll, vl, str, iv] (limits, string mode,  *)
(* initial value of a and b).                                              *)
(* st = [sc, items, unr, rng, err, specs, inl, refs]                       *)
(***************************************************************************)
InitScope(iv) == [x \in VarNames |-> IF x = "u" THEN UNDEF ELSE iv]
St0(iv) == [sc |-> <<InitScope(iv)>>, items |-> <<>>, unr |-> <<>>, rng |-> 0,
        err |-> "-", specs |-> FALSE, inl |-> 0, refs |-> {}, px |-> 0,
        lim |-> [dl |-> 0, ll |-> 0, vl |-> 0]]      \* filled in by Ideal

\* <config depth-limit / loop-limit / var-limit>: limits can be set from the document
RECURSIVE ApplyConfig(_, _)
ApplyConfig(lim, loc) ==
    IF loc = <<>> THEN lim
    ELSE LET k == Head(loc)[1]  v == Head(loc)[2]
             l2 == CASE k = "dl" -> [lim EXCEPT !.dl = v] [] k = "ll" -> [lim EXCEPT !.ll = v]
                     [] k = "vl" -> [lim EXCEPT !.vl = v] [] OTHER -> lim
         IN ApplyConfig(l2, Tail(loc))

FixCount(nd, sc) ==
    IF nd.form = "count" /\ nd.cond.t = "var"
    THEN [nd EXCEPT !.cnt = IF EvalE(nd.cond, sc) < 0 THEN 0 ELSE EvalE(nd.cond, sc)]
    ELSE nd

RECURSIVE EvList(_, _, _, _), EvNode(_, _, _, _), EvLoop(_, _, _, _, _, _)

EvList(list, st, d, C) ==
    IF list = <<>> \/ st.err # "-" THEN st
    ELSE EvList(Tail(list), EvNode(Head(list), st, d, C), d, C)

\* evaluate children as a nested list; returns the state with `unr` holding
\* only the children's unrolling (caller re-attaches)
EvKids(nd, st, d, C) == EvList(nd.ch, [st EXCEPT !.unr = <<>>], d, C)

EvNode(nd, st, d, C) ==
    IF d + 1 > st.lim.dl THEN [st EXCEPT !.err = "depth"]
    ELSE
    CASE nd.k = "leaf" ->
           LET v == IF nd.rd = "-" THEN nd.val ELSE Lookup(st.sc, nd.rd)
               \* inside an instance the hand-written equivalent has the value
               \* substituted (an undefined variable stays a verbatim reference)
               cp == IF st.inl # 0
                     THEN [nd EXCEPT !.rd = IF v = UNDEF THEN @ ELSE "-", !.val = v,
                                     !.href = IF st.inl > 0 THEN st.inl ELSE 0]
                     ELSE nd
               \* horizontal position: absolute by id, next to the previous
               \* element ("^"), or next to the referenced element
               x == CASE nd.ref = 0 -> 3 * nd.id
                      [] nd.ref = -1 -> st.px + 3
                      [] OTHER -> XOf(C.flat, nd.ref, Len(C.flat)) + 3
           IN [st EXCEPT !.items = IF st.specs THEN @ ELSE Append(@, [id |-> nd.id, v |-> v, x |-> x]),
                         !.px = x,
                         !.rng = IF nd.rnd THEN @ + 1 ELSE @,
                         \* (the instance of a template is not the template: it depends on what the
                         \* reuse element refers to, under the reuse element's identity)
                         !.refs = IF nd.ref > 0 /\ ~st.specs THEN @ \cup {<<IF st.inl > 0 THEN st.inl ELSE nd.id, nd.ref>>} ELSE @,
                         !.unr = Append(@, cp)]
      [] nd.k \in {"g", "cont"} ->
           \* a group's own attributes (its probe nd.rd) see the enclosing scope
           LET gv == IF nd.k = "g" /\ nd.rd # "-" THEN Lookup(st.sc, nd.rd) ELSE UNDEF
               sI == IF nd.k = "g" /\ nd.rd # "-" /\ ~st.specs
                     THEN [st EXCEPT !.items = Append(@, [id |-> nd.id, v |-> gv, x |-> 0])] ELSE st
               s0 == [sI EXCEPT !.inl = IF @ > 0 THEN -1 ELSE @]
               s1 == IF nd.k = "g" THEN [s0 EXCEPT !.sc = Append(@, ScopeOf(Resolve(nd.loc, st.sc)))] ELSE s0
               s2 == EvKids(nd, s1, d + 1, C)
               cp == [nd EXCEPT !.ch = s2.unr, !.href = IF st.inl > 0 THEN st.inl ELSE 0,
                                !.rd = IF st.inl # 0 /\ nd.rd # "-" /\ gv # UNDEF THEN "-" ELSE @,
                                !.val = IF st.inl # 0 /\ nd.rd # "-" THEN gv ELSE @]
           IN [s2 EXCEPT !.sc = IF nd.k = "g" /\ s2.err = "-" THEN SubSeq(@, 1, Len(@) - 1) ELSE @,
                         !.inl = st.inl,
                         !.unr = Append(st.unr, cp)]
      [] nd.k = "var" ->
           IF C.str /\ MaxAssigned(nd.asg, st.sc) > st.lim.vl
           THEN [st EXCEPT !.err = "var"]
           ELSE [st EXCEPT !.sc = AssignTop(@, nd.asg), !.unr = Append(@, nd)]
      [] nd.k = "if" ->
           \* a test reading another element (nd.ref) depends on it like a positioned shape does
           LET sR == [st EXCEPT !.refs = IF nd.ref > 0 /\ ~st.specs THEN @ \cup {<<nd.id, nd.ref>>} ELSE @]
           IN IF EvalE(nd.cond, st.sc) # 0
              THEN LET s2 == EvKids(nd, sR, d + 1, C)
                   IN [s2 EXCEPT !.unr = st.unr \o s2.unr]
              ELSE sR
      [] nd.k = "void" -> [st EXCEPT !.unr = Append(@, nd)]
      [] nd.k = "config" -> [st EXCEPT !.lim = ApplyConfig(@, nd.loc), !.unr = Append(@, nd)]
      \* count="$b": the count is the value of the expression when the loop is ENTERED
      [] nd.k = "loop" -> EvLoop(FixCount(nd, st.sc), st, d, C, 0, nd.start)
      [] nd.k = "specs" ->
           IF st.specs THEN [st EXCEPT !.err = "document"]
           ELSE LET s2 == EvKids(nd, [st EXCEPT !.specs = TRUE], d + 1, C)
                   \* errors inside <specs> are ignored (a template may lack context)
                   \* - except an exceeded limit, which is final everywhere
                   \* (<specs> opens no scope: what a loop inside it assigns stays assigned)
                IN [s2 EXCEPT !.specs = FALSE, !.err = IF @ \in {"depth", "loop", "var"} THEN @ ELSE "-",
                              !.sc = IF s2.err = "-" THEN s2.sc ELSE st.sc, !.unr = Append(st.unr, nd)]
      [] nd.k = "reuse" ->
           IF nd.href \notin C.regs THEN [st EXCEPT !.err = "ref"]
           ELSE LET rn == [nd EXCEPT !.loc = Resolve(@, st.sc)]      \* the reuse element's own attributes: enclosing scope
                    tgt == Instance(C.flat[CHOOSE j \in 1..Len(C.flat) : C.flat[j].id = nd.href], rn)
                    s1 == [st EXCEPT !.sc = Append(@, ScopeOf(rn.loc)), !.inl = nd.id, !.unr = <<>>]
                    \* the instance occupies a level of its own in the pinned code
                    \* (C.rc = 1); an implementation is free not to (C.rc = 0)
                    s2 == EvNode(tgt, s1, d + C.rc, C)
                IN [s2 EXCEPT !.sc = IF s2.err = "-" THEN SubSeq(@, 1, Len(@) - 1) ELSE @,
                              !.inl = st.inl,
                              !.unr = st.unr \o s2.unr]
      [] OTHER -> st

\* one loop; `it` iterations done so far, `lvv` current loop-variable value
EvLoop(nd, st, d, C, it, lvv) ==
    LET go == CASE nd.form \in {"count", "for"} -> it < nd.cnt   \* "for": a list of cnt items
                [] nd.form = "while" -> EvalE(nd.cond, st.sc) # 0
                [] OTHER -> TRUE
    IN IF st.err # "-" \/ ~go THEN st
       ELSE
         \* <for idx-var=..> (nd.rd names the index variable) also binds the 0-based index
         LET sA == IF nd.lv # "-" THEN [st EXCEPT !.sc = SetTop(@, nd.lv, lvv)] ELSE st
             s0 == IF nd.form = "for" /\ nd.rd # "-" THEN [sA EXCEPT !.sc = SetTop(@, nd.rd, it)] ELSE sA
             s1 == EvKids(nd, s0, d + 1, C)
             bind == IF nd.lv # "-"
                     THEN <<[Node(0, "var") EXCEPT !.asg = <<<<nd.lv, Lit(lvv)>>>>
                                 \o (IF nd.form = "for" /\ nd.rd # "-" THEN <<<<nd.rd, Lit(it)>>>> ELSE <<>>)]>>
                     ELSE <<>>
             s2 == [s1 EXCEPT !.unr = st.unr \o bind \o s1.unr]
             stop == nd.form = "until" /\ s2.err = "-" /\ EvalE(nd.cond, s2.sc) # 0
         \* the pass just made counts towards the limit, whether or not `until` ends the loop
         IN IF s2.err # "-" THEN s2
            ELSE IF it + 1 > s2.lim.ll THEN [s2 EXCEPT !.err = "loop"]
            ELSE IF stop THEN s2
            ELSE EvLoop(nd, s2, d, C, it + 1, lvv + nd.step)

\* reference graph of the rendered leaves: unsatisfiable when a target is
\* never registered or the references form a cycle
RECURSIVE Reaches(_, _, _, _)
Reaches(refs, from, to, fuel) ==
    IF fuel = 0 THEN FALSE
    ELSE \E p \in refs : p[1] = from /\ (p[2] = to \/ Reaches(refs, p[2], to, fuel - 1))

RefsOK(refs, doc) ==
    /\ refs # {} => \A p \in refs : p[2] \in RegStatic(doc)
    /\ \A p \in refs : ~Reaches(refs, p[1], p[1], Cardinality(refs))

Ideal(doc, C0) ==
    LET C == [doc |-> doc, dl |-> C0.dl, ll |-> C0.ll, vl |-> C0.vl, str |-> C0.str, iv |-> C0.iv,
              rc |-> C0.rc, regs |-> RegStatic(doc), flat |-> Flatten(doc)]
        s == EvList(doc, [St0(C.iv) EXCEPT !.lim = [dl |-> C0.dl, ll |-> C0.ll, vl |-> C0.vl]], 0, C)
        res == IF s.err # "-" THEN s.err
               ELSE IF ~RefsOK(s.refs, doc) THEN "ref"
               ELSE "ok"
    IN [res |-> res, items |-> s.items, unr |-> s.unr, rng |-> s.rng,
        refs |-> s.refs, sc |-> s.sc]

=============================================================================
