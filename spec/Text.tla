-------------------------------- MODULE Text --------------------------------
(***************************************************************************)
(* Character layer of svgdx: how author strings travel from the input      *)
(* document through evaluation to the output bytes (src/events.rs,         *)
(* src/text.rs, src/element.rs element_events).                            *)
(*                                                                         *)
(* Strings are sequences over a small alphabet Sigma with one              *)
(* representative per XML-relevant class.  SERIALISED strings are          *)
(* sequences of tokens: a character of Sigma or an entity reference.       *)
(* The design: every carrier holds UNESCAPED text; escaping happens exactly *)
(* once, in the writer.  Named deviations model the pinned code.           *)
(***************************************************************************)
EXTENDS Integers, Sequences, FiniteSets, TLC

CONSTANTS Family, MaxLen, Deviations

VARIABLE c

\* "N" is a newline, "B" a backslash, "n" the letter n (for the two-character
\* escape \n), "e" a non-ASCII letter
Sigma == {"a", " ", "&", "<", ">", "Q", "'", "-", "]", "e", "N", "B", "n"}
\* Q stands for the double quote (kept out of TLA+ string syntax)

Entity(ch) == CASE ch = "&" -> "&amp;" [] ch = "<" -> "&lt;" [] ch = ">" -> "&gt;"
                [] ch = "Q" -> "&quot;" [] ch = "'" -> "&apos;" [] OTHER -> ch
Entities == {"&amp;", "&lt;", "&gt;", "&quot;", "&apos;"}
Decode(tok) == CASE tok = "&amp;" -> "&" [] tok = "&lt;" -> "<" [] tok = "&gt;" -> ">"
                 [] tok = "&quot;" -> "Q" [] tok = "&apos;" -> "'" [] OTHER -> tok

Strs(n) == UNION {[1..k -> Sigma] : k \in 0..n}

\* escaping of text content / of attribute values (writer)
EscText(s) == [i \in 1..Len(s) |-> IF s[i] \in {"&", "<", ">"} THEN Entity(s[i]) ELSE s[i]]
EscAttr(s) == [i \in 1..Len(s) |-> IF s[i] \in {"&", "<", ">", "Q", "'"} THEN Entity(s[i]) ELSE s[i]]
Unesc(t) == [i \in 1..Len(t) |-> Decode(t[i])]
\* escaping an already serialised string again: every "&" of an entity is escaped
RECURSIVE Flat(_)
Flat(t) == IF t = <<>> THEN <<>>
           ELSE (IF Head(t) \in Entities
                 THEN <<"&amp;">> \o (CASE Head(t) = "&amp;" -> <<"a", "m", "p", ";">>
                                        [] Head(t) = "&lt;" -> <<"l", "t", ";">>
                                        [] Head(t) = "&gt;" -> <<"g", "t", ";">>
                                        [] Head(t) = "&quot;" -> <<"q", "u", "o", "t", ";">>
                                        [] OTHER -> <<"a", "p", "o", "s", ";">>)
                 ELSE <<Entity(Head(t))>>) \o Flat(Tail(t))

\* well-formedness of serialised payloads
WFText(t) == \A i \in 1..Len(t) : t[i] \notin {"&", "<"}
WFAttr(t) == \A i \in 1..Len(t) : t[i] \notin {"&", "<", "Q"}
HasDashDash(s) == \E i \in 1..(Len(s) - 1) : s[i] = "-" /\ s[i + 1] = "-"
WFComment(s) == ~HasDashDash(s) /\ (s = <<>> \/ s[Len(s)] # "-")
HasCDEnd(s) == \E i \in 1..(Len(s) - 2) : s[i] = "]" /\ s[i + 1] = "]" /\ s[i + 2] = ">"

Dev(d) == d \in Deviations

\* writing character data as CDATA sections: a section cannot contain its own
\* terminator, so "]]>" is split across two sections ("]]" ends one, ">" opens
\* the next).  The result is a sequence of sections.
RECURSIVE CDSections(_, _)
CDSections(s, cur) ==
    IF s = <<>> THEN <<cur>>
    ELSE IF Len(s) >= 3 /\ s[1] = "]" /\ s[2] = "]" /\ s[3] = ">" /\ ~Dev("RawCData")
         THEN <<cur \o <<"]", "]">> >> \o CDSections(SubSeq(s, 4, Len(s)), <<">">>)
    ELSE CDSections(Tail(s), Append(cur, Head(s)))
RECURSIVE Concat(_)
Concat(ss) == IF ss = <<>> THEN <<>> ELSE Head(ss) \o Concat(Tail(ss))

(***************************************************************************)
(* Value sources: where an author string can enter an output document      *)
(***************************************************************************)
AttrSources == {"attr", "var-in-attr", "expr-string", "style-attr", "cfg-svg-style", "cfg-font", "cfg-background",
                "g-attr", "reuse-attr", "debug-original", "class-attr", "class-var", "root-attr"}
\* longer strings over the characters that matter inside comments (dashes next to
\* characters the debug rendition strips)
\* strings around the CDATA terminator, for settings that flow into the style sheet
CDStrs == UNION {[1..k -> {"]", ">", "a"}] : k \in 3..4}
          \cup {<<"]", "]", ">", "]", "]", ">">>, <<"]", "]", ">", "a", "]", "]", ">">>, <<"a", "]", "]", ">", "]", "]", "]", ">", "a">>}
CDataSources == {"cfg-font", "cfg-background", "cfg-font+background"}
DashStrs == UNION {[1..k -> {"-", ">", "<", "Q"}] : k \in 3..4}
TextSources == {"text-attr", "content", "text-element", "var-in-text", "cdata-content"}
\* (the comment text may also arrive through a variable, or through a chain of variables
\* each defined after the one that refers to it: one link resolves per evaluation)
CommentSources == {"comment-attr", "raw-comment-attr", "input-comment", "comment-var", "comment-var-chain"}

\* serialisation the design prescribes for a value from a source
WriteAttr(s) == IF Dev("RawAttr") THEN s ELSE EscAttr(s)
\* text that came from element content keeps its input escaping in the pinned
\* code and is escaped again by the writer
WriteText(src, s) ==
    IF Dev("DoubleEscape") /\ src \in {"content", "text-element"} THEN Flat(EscText(s)) ELSE EscText(s)

(***************************************************************************)
(* Lines of shape text (C19): literal newline and the two-character \n     *)
(* split lines; \\n is a literal backslash followed by n                   *)
(***************************************************************************)
RECURSIVE SplitLines(_, _)
\* returns a sequence of lines (each a sequence of characters)
SplitLines(s, cur) ==
    IF s = <<>> THEN <<cur>>
    ELSE IF Head(s) = "N" THEN <<cur>> \o SplitLines(Tail(s), <<>>)
    ELSE IF Head(s) = "B" /\ Len(s) >= 3 /\ s[2] = "B" /\ s[3] = "n"
         THEN SplitLines(SubSeq(s, 4, Len(s)), cur \o <<"B", "n">>)
    ELSE IF Head(s) = "B" /\ Len(s) >= 2 /\ s[2] = "n" THEN <<cur>> \o SplitLines(SubSeq(s, 3, Len(s)), <<>>)
    ELSE SplitLines(Tail(s), Append(cur, Head(s)))
Lines(s) == SplitLines(s, <<>>)

(***************************************************************************)
(* Cases                                                                   *)
(***************************************************************************)
WfCases ==
    {[fam |-> "wf", kind |-> "attr", src |-> src, s |-> s, ser |-> WriteAttr(s)] : src \in AttrSources, s \in Strs(MaxLen)}
    \cup {[fam |-> "wf", kind |-> "text", src |-> src, s |-> s, ser |-> WriteText(src, s)] : src \in TextSources, s \in Strs(MaxLen)}
    \cup {[fam |-> "wf", kind |-> "comment", src |-> src, s |-> s, ser |-> s] : src \in CommentSources, s \in Strs(MaxLen)}
    \cup {[fam |-> "wf", kind |-> "attr", src |-> src, s |-> s, ser |-> WriteAttr(s)] : src \in {"debug-original", "cfg-svg-style"}, s \in DashStrs}
    \cup {[fam |-> "wf", kind |-> "comment", src |-> src, s |-> s, ser |-> s] : src \in {"comment-attr", "raw-comment-attr", "comment-var", "comment-var-chain"}, s \in DashStrs}
    \cup {[fam |-> "wf", kind |-> "cdata", src |-> src, s |-> s, ser |-> CDSections(s, <<>>)] : src \in CDataSources, s \in CDStrs}

\* the design's obligations for every case
WellFormed ==
    c.fam = "wf" =>
        /\ c.kind = "attr" => WFAttr(c.ser) /\ Unesc(c.ser) = c.s
        /\ c.kind = "text" => WFText(c.ser) /\ Unesc(c.ser) = c.s
        \* a comment payload that cannot be written must make the transform fail
        /\ c.kind = "comment" => TRUE
        \* no section contains the terminator; together they spell the value
        /\ c.kind = "cdata" => (\A i \in 1..Len(c.ser) : ~HasCDEnd(c.ser[i])) /\ Concat(c.ser) = c.s

\* writer normalisations are idempotent (C05): re-reading and re-writing an
\* output payload reproduces it
Idempotent ==
    c.fam = "wf" /\ c.kind \in {"attr", "text"} =>
        (IF c.kind = "attr" THEN WriteAttr(Unesc(c.ser)) ELSE WriteText(c.src, Unesc(c.ser))) = c.ser

LineCases ==
    {[fam |-> "lines", carrier |-> car, s |-> s, lines |-> Lines(s)] :
        car \in {"text-attr", "content", "cdata-content", "text-element"},
        s \in UNION {[1..k -> {"a", " ", "&", "<", "Q", "N", "B", "n", "e"}] : k \in 0..MaxLen}}

\* structured multi-line strings: 2-3 lines drawn from line kinds (empty,
\* blank, leading / trailing blanks, specials), joined by a literal newline or
\* by the two-character escape
LineKinds == {<<>>, <<" ">>, <<" ", " ">>, <<"a">>, <<" ", "a">>, <<"a", " ">>, <<"a", " ", "e">>, <<"&", "<">>}
JoinWith(ls, sep) == IF Len(ls) = 2 THEN ls[1] \o sep \o ls[2] ELSE ls[1] \o sep \o ls[2] \o sep \o ls[3]
LineCases2 ==
    {[fam |-> "lines", carrier |-> car, s |-> JoinWith(ls, sep), lines |-> Lines(JoinWith(ls, sep))] :
        car \in {"text-attr", "content", "cdata-content", "text-element"},
        ls \in {<<x, y>> : x \in LineKinds, y \in LineKinds} \cup {<<x, y, z>> : x \in {<<"a">>, <<>>}, y \in LineKinds, z \in {<<"a">>, <<" ">>}},
        sep \in {<<"N">>, <<"B", "n">>}}

\* sequences of the pieces that matter to the line rules, whatever MaxLen: the escaped
\* escape at the very start, after a newline, after a split; a lone backslash; and "E" -
\* the four characters & l t ; written literally (text that LOOKS like an entity reference
\* is text: in a CDATA section the author writes it as it stands)
Pieces == {<<"B", "B", "n">>, <<"B", "n">>, <<"N">>, <<"a">>, <<"B">>, <<"E">>}
PieceSeqs == UNION {[1..k -> Pieces] : k \in 1..3}
LineCases3 ==
    {[fam |-> "lines", carrier |-> car, s |-> Concat(ps), lines |-> Lines(Concat(ps))] :
        car \in {"text-attr", "content", "cdata-content", "text-element", "mixed-content"}, ps \in PieceSeqs}

RECURSIVE Join(_)
Join(ls) == IF Len(ls) = 1 THEN ls[1] ELSE ls[1] \o <<"N">> \o Join(Tail(ls))
LinesOK ==
    c.fam = "lines" =>
        /\ Len(c.lines) >= 1
        \* without the escape sequence, joining the lines with newlines gives the string back
        /\ (\A i \in 1..Len(c.s) : c.s[i] # "B") => Join(c.lines) = c.s
        \* a blank line is a line: nothing but the separators is removed
        /\ \A i \in 1..Len(c.lines) : \A j \in 1..Len(c.lines[i]) : c.lines[i][j] # "N"

(***************************************************************************)
(* Document shapes for the root rule (C02) and pass-through (C03)          *)
(***************************************************************************)
Prologs == {"none", "xmldecl", "comment", "pi", "doctype", "doctype-public", "doctype-subset", "xmldecl-doctype"}
KidKinds == {"shape", "text-shape", "nested-ns-svg", "nested-plain-svg", "specs", "g", "comment", "defs", "style"}
KidLists == UNION {[1..k -> KidKinds] : k \in 0..2}
\* what else the author wrote on the root: nothing, a prefixed namespace declaration
\* only, a version, id and class, attributes in a namespace of their own
RootAttrs == {"none", "xlink", "version", "id-class", "custom-ns", "xml-space"}
\* an empty root may be written <svg></svg> or <svg/>
RootForms(ks) == IF ks = <<>> THEN {"pair", "empty-tag"} ELSE {"pair"}
RootCases ==
    UNION {
    {[fam |-> "root", prolog |-> p, kids |-> ks, ns |-> n, rootattrs |-> ra, form |-> rf,
      \* a namespaced root is passed through untouched; otherwise the root is
      \* synthesised: svg + xmlns + version, single root
      passthrough |-> n, rootok |-> TRUE] :
        p \in Prologs, n \in BOOLEAN, ra \in (IF Len(ks) <= 1 THEN RootAttrs ELSE {"none", "xlink"}), rf \in RootForms(ks)} : ks \in KidLists}

Cases == CASE Family = "wf" -> WfCases [] Family = "lines" -> LineCases \cup LineCases2 \cup LineCases3 [] Family = "root" -> RootCases [] OTHER -> {}
Init == c \in Cases
Next == UNCHANGED c
Spec == Init /\ [][Next]_c
=============================================================================
