-------------------------------- MODULE Geom --------------------------------
(***************************************************************************)
(* Reference geometry of svgdx (docs/mdbook/src/reference/layout.md,       *)
(* attribute-ref.md and the property statements C08, C09, C11, C12, C13).  *)
(*                                                                         *)
(* All quantities are integers in QUARTER user units, chosen so that every *)
(* division below is exact (asserted); the harness divides by 4.  Each     *)
(* reachable state is one CASE: the abstract input of a layout problem     *)
(* together with the geometry the reference rules give for it.  TLC        *)
(* enumerates every case of a family, checks the algebraic identities the  *)
(* rules must satisfy (the invariants below) and exports the cases for     *)
(* replay against the implementation.                                      *)
(***************************************************************************)
EXTENDS Integers, Sequences, FiniteSets, TLC

CONSTANTS Family, Tier

VARIABLE c      \* the case

B(x1, y1, x2, y2) == [x1 |-> x1, y1 |-> y1, x2 |-> x2, y2 |-> y2]
W(b) == b.x2 - b.x1
H(b) == b.y2 - b.y1
Div(n, d) == IF n % d = 0 THEN n \div d ELSE Assert(FALSE, <<"inexact division", n, d>>)
Half(n) == Div(n, 2)
Cx(b) == Half(b.x1 + b.x2)
Cy(b) == Half(b.y1 + b.y2)
Max(a, b) == IF a >= b THEN a ELSE b
Min(a, b) == IF a <= b THEN a ELSE b
Shift(b, dx, dy) == B(b.x1 + dx, b.y1 + dy, b.x2 + dx, b.y2 + dy)
Union(a, b) == B(Min(a.x1, b.x1), Min(a.y1, b.y1), Max(a.x2, b.x2), Max(a.y2, b.y2))

LocNames == {"tl", "t", "tr", "r", "br", "b", "bl", "l", "c"}
Loc(b, loc) ==
    CASE loc = "tl" -> <<b.x1, b.y1>> [] loc = "t" -> <<Cx(b), b.y1>> [] loc = "tr" -> <<b.x2, b.y1>>
      [] loc = "l" -> <<b.x1, Cy(b)>> [] loc = "c" -> <<Cx(b), Cy(b)>> [] loc = "r" -> <<b.x2, Cy(b)>>
      [] loc = "bl" -> <<b.x1, b.y2>> [] loc = "b" -> <<Cx(b), b.y2>> [] loc = "br" -> <<b.x2, b.y2>>

\* a point along an edge: percent from the start; positive absolute from the
\* start; negative absolute backwards from the end
EdgeLoc(b, edge, okind, v) ==
    LET len == IF edge \in {"t", "b"} THEN W(b) ELSE H(b)
        off == IF okind = "pct" THEN Div(len * v, 100) ELSE IF v >= 0 THEN v ELSE len + v
    IN CASE edge = "t" -> <<b.x1 + off, b.y1>> [] edge = "b" -> <<b.x1 + off, b.y2>>
         [] edge = "l" -> <<b.x1, b.y1 + off>> [] edge = "r" -> <<b.x2, b.y1 + off>>

\* box of size w x h whose location `anchor` is the point p
PlaceAt(p, anchor, w, h) ==
    LET a == Loc(B(0, 0, w, h), anchor)
    IN B(p[1] - a[1], p[2] - a[2], p[1] - a[1] + w, p[2] - a[2] + h)

\* box of size w x h beside `ref`, centred on the shared axis, `gap` apart
PlaceDir(ref, dir, gap, w, h) ==
    CASE dir = "h" -> B(ref.x2 + gap, Cy(ref) - Half(h), ref.x2 + gap + w, Cy(ref) - Half(h) + h)
      [] dir = "H" -> B(ref.x1 - gap - w, Cy(ref) - Half(h), ref.x1 - gap, Cy(ref) - Half(h) + h)
      [] dir = "v" -> B(Cx(ref) - Half(w), ref.y2 + gap, Cx(ref) - Half(w) + w, ref.y2 + gap + h)
      [] dir = "V" -> B(Cx(ref) - Half(w), ref.y1 - gap - h, Cx(ref) - Half(w) + w, ref.y1 - gap)

\* the eleven scalar kinds of the layout reference (x / x1, y / y1, w / width, h / height are two spellings of one kind):
\* four edges, two centres, two sizes, the two half-sizes rx / ry and r, by convention the larger of the two
ScalarNames == {"x", "x1", "x2", "cx", "y", "y1", "y2", "cy", "w", "h", "width", "height", "rx", "ry", "r"}
Scalar(b, s) ==
    CASE s \in {"x", "x1"} -> b.x1 [] s = "x2" -> b.x2 [] s = "cx" -> Cx(b)
      [] s \in {"y", "y1"} -> b.y1 [] s = "y2" -> b.y2 [] s = "cy" -> Cy(b)
      [] s \in {"w", "width"} -> W(b) [] s \in {"h", "height"} -> H(b)
      [] s = "rx" -> Half(W(b)) [] s = "ry" -> Half(H(b))
      [] s = "r" -> Max(Half(W(b)), Half(H(b)))

(***************************************************************************)
(* C11: per-axis constraint solving                                        *)
(***************************************************************************)
Keys == {"s", "e", "c", "l"}          \* start, end, centre, length
Pairs == {p \in SUBSET Keys : Cardinality(p) = 2}
Project(lo, hi, k) == CASE k = "s" -> lo [] k = "e" -> hi [] k = "c" -> Half(lo + hi) [] k = "l" -> hi - lo
\* extent <<lo, hi>> described by a pair of constraints with values v[k]
Solve(p, v) ==
    CASE p = {"s", "e"} -> <<v["s"], v["e"]>>
      [] p = {"s", "c"} -> <<v["s"], 2 * v["c"] - v["s"]>>
      [] p = {"s", "l"} -> <<v["s"], v["s"] + v["l"]>>
      [] p = {"e", "c"} -> <<2 * v["c"] - v["e"], v["e"]>>
      [] p = {"e", "l"} -> <<v["e"] - v["l"], v["e"]>>
      [] p = {"c", "l"} -> <<v["c"] - Half(v["l"]), v["c"] - Half(v["l"]) + v["l"]>>
Vals(lo, hi, p) == [k \in p |-> Project(lo, hi, k)]

\* edges on multiples of 50 grid units: 10, 20, 30 user units on the grid of fifths - values
\* that are written with trailing zeros before those are trimmed
BigBoxes == {B(50, 100, 82, 150), B(-100, 50, -50, 82), B(100, 200, 162, 300), B(100, 200, 226, 262)}
SolveBoxes ==
    IF Tier = "quick"
    THEN {B(x, y, x + w, y + h) : x \in {-12, 8}, y \in {-4, 6}, w \in {8, 20}, h \in {8, 12}} \cup BigBoxes
    ELSE {B(x, y, x + w, y + h) : x \in {-12, 0, 8, 26}, y \in {-4, 0, 6}, w \in {4, 8, 20}, h \in {8, 12, 28}} \cup BigBoxes

SolveCases ==
    {[fam |-> "solve", shape |-> s, box |-> b, px |-> px, py |-> py, dx |-> d[1], dy |-> d[2],
      vx |-> Vals(b.x1, b.x2, px), vy |-> Vals(b.y1, b.y2, py), exp |-> Shift(b, d[1], d[2])] :
        s \in {"rect", "ellipse", "line"}, b \in SolveBoxes, px \in Pairs, py \in Pairs,
        d \in {<<0, 0>>, <<4, -6>>}}
    \cup
    \* circles: one radius; the other axis needs a single position only
    {[fam |-> "solve", shape |-> "circle", box |-> b, px |-> px, py |-> py, dx |-> 0, dy |-> 0,
      vx |-> Vals(b.x1, b.x2, px), vy |-> Vals(b.y1, b.y2, py), exp |-> b] :
        b \in {bb \in SolveBoxes : W(bb) = H(bb)}, px \in Pairs, py \in {{"s"}, {"c"}, {"e"}}}
    \cup
    \* ... whichever axis it is that gives the size
    {[fam |-> "solve", shape |-> "circle", box |-> b, px |-> px, py |-> py, dx |-> 0, dy |-> 0,
      vx |-> Vals(b.x1, b.x2, px), vy |-> Vals(b.y1, b.y2, py), exp |-> b] :
        b \in {bb \in SolveBoxes : W(bb) = H(bb)}, px \in {{"s"}, {"c"}, {"e"}}, py \in Pairs}

\* shapes that give a position and no size (no box can be computed): dx / dy still move what is given, and
\* dy alone, dx alone, the pair and the shorthand dxy are the same request.  at: attribute -> value; exp: moved
PartialShapes == {<<"rect", {"x", "y"}>>, <<"circle", {"cx", "cy"}>>, <<"ellipse", {"cx", "cy"}>>,
                  <<"line", {"y1", "y2"}>>, <<"line", {"x1", "x2"}>>}
XAttrs == {"x", "cx", "x1", "x2"}
PartialVal(a) == CASE a \in {"x", "cx", "x1"} -> 4 [] a \in {"y", "cy", "y1"} -> -8 [] a = "x2" -> 24 [] a = "y2" -> 12
PartialCases ==
    {x \in {[fam |-> "solve", shape |-> ps[1], partial |-> TRUE, dx |-> d[1], dy |-> d[2],
             at |-> [a \in ps[2] |-> PartialVal(a)],
             exp |-> [a \in ps[2] |-> PartialVal(a) + (IF a \in XAttrs THEN d[1] ELSE d[2])]] :
            ps \in PartialShapes, d \in {<<4, -6>>, <<4, 0>>, <<0, -6>>, <<-2, 0>>, <<0, 10>>}} :
        \* (a line given on one axis only is moved along that axis)
        x.shape = "line" => (\A a \in DOMAIN x.at : IF a \in XAttrs THEN x.dy = 0 ELSE x.dx = 0)}
PartialIdentity ==
    (c.fam = "solve" /\ "partial" \in DOMAIN c) =>
        \A a \in DOMAIN c.at : c.exp[a] - c.at[a] = (IF a \in XAttrs THEN c.dx ELSE c.dy)

\* identity checked by TLC: solving the projection of an extent returns it
SolveIdentity ==
    (c.fam = "solve" /\ "partial" \notin DOMAIN c) =>
        /\ (Cardinality(c.px) = 2 => Solve(c.px, c.vx) = <<c.box.x1, c.box.x2>>)
        /\ (Cardinality(c.py) = 2 => Solve(c.py, c.vy) = <<c.box.y1, c.box.y2>>)

(***************************************************************************)
(* C09: relative positioning                                               *)
(***************************************************************************)
RefBoxes ==
    IF Tier = "quick" THEN {B(8, 12, 24, 20), B(-20, -8, -4, 8)}
    ELSE {B(8, 12, 24, 20), B(-20, -8, -4, 8), B(0, 0, 40, 8), B(4, -24, 12, 0)}
RefKinds == {"rect", "circle", "ellipse", "line", "box", "g"}
SubjKinds == {"rect", "circle", "ellipse"}
Sizes(k) == IF k = "circle" THEN {<<8, 8>>} ELSE {<<8, 4>>, <<4, 12>>}

DirCases == UNION {
    {[fam |-> "rel", form |-> "dir", refkind |-> rk, ref |-> r, kind |-> k, w |-> sz[1], h |-> sz[2],
      dir |-> d, gap |-> g, exp |-> PlaceDir(r, d, g, sz[1], sz[2])] :
        rk \in RefKinds, r \in RefBoxes, sz \in Sizes(k),
        d \in {"h", "H", "v", "V"}, g \in {-8, 0, 12}} : k \in SubjKinds}

\* direction placement of an element whose size is adjusted by dw / dh: the adjusted size is
\* what is centred on the shared axis and kept `gap` away
DirDeltaCases ==
    {[fam |-> "rel", form |-> "dirdelta", refkind |-> "rect", ref |-> r, kind |-> k, w |-> 8, h |-> 4, dw |-> dl[1], dh |-> dl[2],
      dir |-> d, gap |-> g, exp |-> PlaceDir(r, d, g, 8 + dl[1], 4 + dl[2])] :
        r \in RefBoxes, k \in {"rect", "ellipse"}, dl \in {<<8, 0>>, <<0, 8>>, <<-4, 12>>},
        d \in {"h", "H", "v", "V"}, g \in {0, 12}}

\* "^" in an element that has to be deferred (its size refers to an element written later):
\* it still means the element written before it
PrevDeferCases ==
    {[fam |-> "rel", form |-> "prevdefer", refkind |-> rk, ref |-> r, kind |-> "rect", w |-> sz[1], h |-> sz[2],
      dir |-> d, gap |-> g, exp |-> PlaceDir(r, d, g, sz[1], sz[2])] :
        rk \in {"rect", "ellipse", "line"}, r \in RefBoxes, sz \in {<<8, 4>>, <<4, 12>>}, d \in {"h", "H", "v", "V"}, g \in {0, 8}}

\* "^" when the element written before is itself deferred: it means that element - once it
\* is resolved - and not the one before it
PrevPendingCases ==
    {[fam |-> "rel", form |-> "prevpending", refkind |-> "rect", ref |-> r, kind |-> "rect", w |-> sz[1], h |-> sz[2],
      dir |-> d, gap |-> g, exp |-> PlaceDir(r, d, g, sz[1], sz[2])] :
        r \in RefBoxes, sz \in {<<8, 4>>}, d \in {"h", "H", "v", "V"}, g \in {0, 8}}

\* "^" after an element that writes nothing (<box>, <point>) standing between two deferred
\* elements: still the element written just before
PrevBoxCases ==
    {[fam |-> "rel", form |-> "prevbox", refkind |-> rk, ref |-> (IF rk = "point" THEN B(r.x1, r.y1, r.x1, r.y1) ELSE r), kind |-> "rect",
      w |-> sz[1], h |-> sz[2], dir |-> d, gap |-> g,
      exp |-> PlaceDir(IF rk = "point" THEN B(r.x1, r.y1, r.x1, r.y1) ELSE r, d, g, sz[1], sz[2])] :
        rk \in {"box", "point"}, r \in RefBoxes, sz \in {<<8, 4>>}, d \in {"h", "H", "v", "V"}, g \in {0, 8}}

\* a <point> as reference: a degenerate box; it is also a legitimate "previous element"
PointRefCases ==
    {[fam |-> "rel", form |-> "dir", refkind |-> "point", ref |-> B(p[1], p[2], p[1], p[2]), kind |-> "rect", w |-> 8, h |-> 4,
      dir |-> d, gap |-> g, exp |-> PlaceDir(B(p[1], p[2], p[1], p[2]), d, g, 8, 4)] :
        p \in {<<8, 12>>, <<-20, 4>>}, d \in {"h", "H", "v", "V"}, g \in {0, 8}}
    \cup
    {[fam |-> "rel", form |-> "loc", refkind |-> "point", ref |-> B(p[1], p[2], p[1], p[2]), kind |-> k, w |-> 8, h |-> 8,
      loc |-> "c", anchor |-> a, dx |-> 0, dy |-> 0, exp |-> PlaceAt(p, a, 8, 8)] :
        p \in {<<8, 12>>, <<-20, 4>>}, k \in {"rect", "circle"}, a \in {"tl", "c", "br"}}

LocCases ==
    {[fam |-> "rel", form |-> "loc", refkind |-> rk, ref |-> r, kind |-> k, w |-> sz[1], h |-> sz[2],
      loc |-> l, anchor |-> a, dx |-> d[1], dy |-> d[2],
      exp |-> Shift(PlaceAt(Loc(r, l), a, sz[1], sz[2]), d[1], d[2])] :
        rk \in RefKinds, r \in RefBoxes, k \in SubjKinds, sz \in {<<8, 8>>},
        l \in LocNames, a \in LocNames, d \in {<<0, 0>>, <<4, -12>>}}

EdgeCases ==
    {[fam |-> "rel", form |-> "edge", refkind |-> rk, ref |-> r, kind |-> "rect", w |-> 8, h |-> 4,
      edge |-> e, okind |-> o[1], off |-> o[2], anchor |-> a,
      exp |-> PlaceAt(EdgeLoc(r, e, o[1], o[2]), a, 8, 4)] :
        rk \in {"rect", "circle", "line"}, r \in RefBoxes, e \in {"t", "r", "b", "l"},
        o \in {<<"abs", 4>>, <<"abs", -4>>, <<"abs", 0>>, <<"pct", 25>>, <<"pct", 150>>, <<"pct", 0>>, <<"pct", 100>>},
        a \in {"tl", "c"}}

\* a line (or polyline) drawn between locations of referenced elements: xy1="#r@tr", xy2="#q@l 1 -2",
\* points="#r@tl #q@c"; each end is the location plus its offset
LinePtCases == UNION {
    {[fam |-> "rel", form |-> "linepts", shape |-> sh, ref |-> r, ref2 |-> Shift(r, 40, 24), l1 |-> l1, l2 |-> l2, dx |-> d[1], dy |-> d[2],
      p1 |-> Loc(r, l1), p2 |-> <<Loc(Shift(r, 40, 24), l2)[1] + d[1], Loc(Shift(r, 40, 24), l2)[2] + d[2]>>,
      exp |-> B(0, 0, 0, 0)] :
        r \in RefBoxes, l1 \in LocNames, l2 \in {"tl", "c", "r", "b"},
        \* (inside a points list a location is substituted as it stands; numbers after it are further points)
        d \in (IF sh = "line" THEN {<<0, 0>>, <<4, -8>>} ELSE {<<0, 0>>})} : sh \in {"line", "polyline"}}

\* per-axis scalar references: x="#r~x2" etc.; the other axis is absolute
\* ... optionally followed by a delta, as after a size reference: a number is added, a percentage scales
ScalarDeltas == {<<"none", 0>>, <<"abs", 8>>, <<"abs", -4>>, <<"pct", 50>>, <<"pct", 150>>}
ScalarWith(r, s, d) == CASE d[1] = "abs" -> Scalar(r, s) + d[2] [] d[1] = "pct" -> (Scalar(r, s) * d[2]) \div 100 [] OTHER -> Scalar(r, s)
ScalarCases == {x \in
    {[fam |-> "rel", form |-> "scalar", refkind |-> rk, ref |-> r, kind |-> "rect", w |-> 8, h |-> 4,
      attr |-> a, scalar |-> s, dmode |-> d[1], dval |-> d[2],
      exp |-> IF a = "x" THEN B(ScalarWith(r, s, d), 4, ScalarWith(r, s, d) + 8, 8)
              ELSE B(4, ScalarWith(r, s, d), 12, ScalarWith(r, s, d) + 4)] :
        rk \in RefKinds, r \in RefBoxes, a \in {"x", "y"}, s \in ScalarNames, d \in ScalarDeltas} :
    \* (only percentages that come out exact on the grid)
    x.dmode # "pct" \/ (Scalar(x.ref, x.scalar) * x.dval) % 100 = 0}

\* relative size: wh="#r", "#r 50%", "#r 8 -4" (quarter units), dw/dh
SizeCases ==
    {[fam |-> "rel", form |-> "size", refkind |-> rk, ref |-> r, kind |-> k, mode |-> m[1], a |-> m[2], b |-> m[3],
      exp |-> LET w == CASE m[1] = "same" -> W(r) [] m[1] = "pct" -> Div(W(r) * m[2], 100) [] m[1] = "add" -> W(r) + m[2]
                  h == CASE m[1] = "same" -> H(r) [] m[1] = "pct" -> Div(H(r) * m[2], 100) [] m[1] = "add" -> H(r) + m[3]
              IN B(4, 8, 4 + w, 8 + h)] :
        rk \in {"rect", "ellipse", "g"}, r \in RefBoxes, k \in {"rect", "ellipse"},
        m \in {<<"same", 0, 0>>, <<"pct", 50, 50>>, <<"pct", 150, 150>>, <<"add", 8, -4>>}}

\* dw / dh / dwh: absolute values add to the size, percentages scale it; the anchor
\* (top-left, the xy-loc location, or the centre for cxy) does not move
DeltaCases ==
    {[fam |-> "rel", form |-> "delta", kind |-> k, w |-> 8, h |-> 16, anchor |-> a, mode |-> m[1], a1 |-> m[2], a2 |-> m[3],
      exp |-> LET nw == IF m[1] = "abs" THEN 8 + m[2] ELSE Div(8 * m[2], 100)
                  nh == IF m[1] = "abs" THEN 16 + m[3] ELSE Div(16 * m[3], 100)
              IN PlaceAt(<<40, 24>>, a, nw, nh)] :
        k \in {"rect", "ellipse"}, a \in {"tl", "c", "br", "t", "l"},
        m \in {<<"abs", 4, 8>>, <<"abs", -4, 0>>, <<"pct", 50, 150>>, <<"pct", 200, 100>>}}
    \cup
    \* a circle has one size: the same delta on both axes changes it once
    {[fam |-> "rel", form |-> "delta", kind |-> "circle", w |-> 8, h |-> 8, anchor |-> a, mode |-> m[1], a1 |-> m[2], a2 |-> m[3],
      exp |-> LET n == IF m[1] = "abs" THEN 8 + m[2] ELSE Div(8 * m[2], 100)
              IN PlaceAt(<<40, 24>>, a, n, n)] :
        a \in {"tl", "c", "br"}, m \in {<<"abs", 4, 4>>, <<"abs", -4, -4>>, <<"pct", 50, 50>>, <<"pct", 200, 200>>}}

\* reuse placement (C18): an instance of a template drawn at the origin is placed with its
\* top-left at the reuse element's x/y (a shape) or translated there (a group)
\* `via`: the position is written as numbers ("abs"), as a location of a base element
\* whose top-left is p ("loc"), or as a direction from that base element ("dir")
ReuseBase(p) == B(p[1], p[2], p[1] + 4, p[2] + 4)
ReusePosCases ==
    {[fam |-> "rel", form |-> "reusepos", tkind |-> tk, w |-> sz[1], h |-> sz[2], x |-> p[1], y |-> p[2], where |-> wh,
      anchor |-> an, via |-> via, exp |-> PlaceAt(p, an, sz[1], sz[2])] :
        \* (a line keeps its direction, a text has only its anchor: both are moved as they are;
        \* "linerev" is the line drawn from the bottom-right to the top-left)
        tk \in {"rect", "circle", "ellipse", "g", "symbol", "line", "linerev"}, sz \in {<<8, 8>>, <<8, 12>>},
        p \in {<<0, 0>>, <<20, -12>>, <<-16, 4>>}, wh \in {"specs", "defs", "inline-before", "inline-after"},
        an \in {"tl", "c", "br", "t"}, via \in {"abs", "loc"}}
    \cup
    {[fam |-> "rel", form |-> "reusepos", tkind |-> "text", w |-> 0, h |-> 0, x |-> p[1], y |-> p[2], where |-> wh,
      anchor |-> "tl", via |-> via, exp |-> B(p[1], p[2], p[1], p[2])] :
        \* (a text placed AT A LOCATION of another element is a label of that element - another rule)
        p \in {<<0, 0>>, <<20, -12>>, <<-16, 4>>}, wh \in {"specs", "inline-before", "inline-after"}, via \in {"abs"}}
    \cup
    \* placed along ONE axis only (x without y, y without x): the other stays where the template is
    {[fam |-> "rel", form |-> "reusepos", tkind |-> tk, w |-> sz[1], h |-> sz[2], x |-> p[1], y |-> p[2], where |-> wh,
      anchor |-> "tl", via |-> via,
      \* (a circle / ellipse template written without a centre sits around the origin)
      exp |-> LET ox == IF tk \in {"circle", "ellipse"} THEN -Half(sz[1]) ELSE 0
                  oy == IF tk \in {"circle", "ellipse"} THEN -Half(sz[2]) ELSE 0
              IN IF via = "abs-x" THEN PlaceAt(<<p[1], oy>>, "tl", sz[1], sz[2]) ELSE PlaceAt(<<ox, p[2]>>, "tl", sz[1], sz[2])] :
        tk \in {"rect", "circle", "ellipse", "g", "symbol"}, sz \in {<<8, 8>>, <<8, 12>>},
        p \in {<<20, -12>>, <<-16, 4>>}, wh \in {"specs", "defs", "inline-before", "inline-after"}, via \in {"abs-x", "abs-y"}}
    \cup
    {[fam |-> "rel", form |-> "reusepos", tkind |-> tk, w |-> sz[1], h |-> sz[2], x |-> p[1], y |-> p[2], where |-> wh,
      anchor |-> d, via |-> "dir", exp |-> PlaceDir(ReuseBase(p), d, 4, sz[1], sz[2])] :
        \* ("...-param": the template's size is given by variables which the reuse element sets)
        tk \in {"rect", "circle", "ellipse", "g", "symbol", "line", "rect-param", "ellipse-param", "line-param"}, sz \in {<<8, 8>>, <<8, 12>>},
        p \in {<<0, 0>>, <<20, -12>>}, wh \in {"specs", "defs", "inline-before", "inline-after"},
        d \in {"h", "H", "v", "V"}}

\* chains: b placed against a, c against b (translation composes)
ChainCases ==
    {[fam |-> "rel", form |-> "chain", ref |-> r, d1 |-> d1, d2 |-> d2, gap |-> g,
      exp1 |-> PlaceDir(r, d1, g, 8, 4),
      exp |-> PlaceDir(PlaceDir(r, d1, g, 8, 4), d2, g, 4, 12)] :
        r \in RefBoxes, d1 \in {"h", "H", "v", "V"}, d2 \in {"h", "H", "v", "V"}, g \in {0, 4}}

RelCases == DirCases \cup LocCases \cup EdgeCases \cup ScalarCases \cup SizeCases \cup ChainCases \cup PointRefCases
            \cup DeltaCases \cup ReusePosCases \cup LinePtCases \cup DirDeltaCases \cup PrevDeferCases \cup PrevPendingCases \cup PrevBoxCases

\* identities of the layout reference, checked on every case
RelIdentities ==
    c.fam = "rel" =>
        /\ c.form = "edge" /\ c.okind = "pct" /\ c.off = 0 =>
              EdgeLoc(c.ref, c.edge, "pct", 0) = Loc(c.ref, IF c.edge \in {"t", "l"} THEN "tl" ELSE IF c.edge = "b" THEN "bl" ELSE "tr")
        /\ c.form = "edge" /\ c.okind = "pct" /\ c.off = 100 =>
              EdgeLoc(c.ref, c.edge, "pct", 100) = Loc(c.ref, IF c.edge \in {"b", "r"} THEN "br" ELSE IF c.edge = "t" THEN "tr" ELSE "bl")
        \* an absolute offset of 0 is the start of the edge, like 0%
        /\ c.form = "edge" /\ c.okind = "abs" /\ c.off = 0 => EdgeLoc(c.ref, c.edge, "abs", 0) = EdgeLoc(c.ref, c.edge, "pct", 0)
        \* scalar kinds are consistent with one another: centre = edge + half-size, size = far edge - near edge, r covers both half-sizes
        /\ c.form = "scalar" =>
              /\ Scalar(c.ref, "cx") = Scalar(c.ref, "x") + Scalar(c.ref, "rx") /\ Scalar(c.ref, "cy") = Scalar(c.ref, "y") + Scalar(c.ref, "ry")
              /\ Scalar(c.ref, "width") = Scalar(c.ref, "x2") - Scalar(c.ref, "x1") /\ Scalar(c.ref, "height") = Scalar(c.ref, "y2") - Scalar(c.ref, "y1")
              /\ 2 * Scalar(c.ref, "rx") = Scalar(c.ref, "w") /\ 2 * Scalar(c.ref, "ry") = Scalar(c.ref, "h")
              /\ Scalar(c.ref, "r") >= Scalar(c.ref, "rx") /\ Scalar(c.ref, "r") >= Scalar(c.ref, "ry") /\ Scalar(c.ref, "r") \in {Scalar(c.ref, "rx"), Scalar(c.ref, "ry")}
        /\ c.form = "loc" => Loc(PlaceAt(Loc(c.ref, c.loc), c.anchor, c.w, c.h), c.anchor) = Loc(c.ref, c.loc)
        /\ c.form = "delta" => Loc(c.exp, c.anchor) = <<40, 24>>
        /\ c.form = "dir" /\ c.dir \in {"h", "H"} => Cy(c.exp) = Cy(c.ref) /\ H(c.exp) = c.h /\ W(c.exp) = c.w
        /\ c.form = "dir" /\ c.dir \in {"v", "V"} => Cx(c.exp) = Cx(c.ref)
        /\ c.form = "dir" /\ c.dir = "h" => c.exp.x1 - c.ref.x2 = c.gap
        /\ c.form = "dir" /\ c.dir = "H" => c.ref.x1 - c.exp.x2 = c.gap
        /\ c.form = "dir" /\ c.dir = "v" => c.exp.y1 - c.ref.y2 = c.gap
        /\ c.form = "dir" /\ c.dir = "V" => c.ref.y1 - c.exp.y2 = c.gap

(***************************************************************************)
(* C12: containment                                                        *)
(***************************************************************************)
\* margin forms: 1-4 values, CSS order; each value <<kind, v>> with kind abs/pct
Trbl(m) ==   \* -> [t, r, b, l]
    CASE Len(m) = 1 -> [t |-> m[1], r |-> m[1], b |-> m[1], l |-> m[1]]
      [] Len(m) = 2 -> [t |-> m[1], r |-> m[2], b |-> m[1], l |-> m[2]]
      [] Len(m) = 3 -> [t |-> m[1], r |-> m[2], b |-> m[3], l |-> m[2]]
      [] Len(m) = 4 -> [t |-> m[1], r |-> m[2], b |-> m[3], l |-> m[4]]
Len2(base, lv) == IF lv[1] = "pct" THEN Div(base * lv[2], 100) ELSE lv[2]
\* surround: percent of max(W, H) of the union; inside: of min(W, H)
Grow(b, m) ==
    LET t == Trbl(m)  base == Max(W(b), H(b))
    IN B(b.x1 - Len2(base, t.l), b.y1 - Len2(base, t.t), b.x2 + Len2(base, t.r), b.y2 + Len2(base, t.b))
Shrink(b, m) ==
    LET t == Trbl(m)  base == Min(W(b), H(b))
    IN B(b.x1 + Len2(base, t.l), b.y1 + Len2(base, t.t), b.x2 - Len2(base, t.r), b.y2 - Len2(base, t.b))
Inter(a, b) == B(Max(a.x1, b.x1), Max(a.y1, b.y1), Min(a.x2, b.x2), Min(a.y2, b.y2))
RECURSIVE UnionAll(_), InterAll(_)
UnionAll(bs) == IF Len(bs) = 1 THEN bs[1] ELSE Union(bs[1], UnionAll(Tail(bs)))
InterAll(bs) == IF Len(bs) = 1 THEN bs[1] ELSE Inter(bs[1], InterAll(Tail(bs)))

\* ellipse (centre, SQUARED semi-axes) encloses a box: all four corners inside
EnclosesSq(cx, cy, rx2, ry2, b) ==
    \A p \in {<<b.x1, b.y1>>, <<b.x2, b.y1>>, <<b.x1, b.y2>>, <<b.x2, b.y2>>} :
        (p[1] - cx) * (p[1] - cx) * ry2 + (p[2] - cy) * (p[2] - cy) * rx2 <= rx2 * ry2

Margins ==
    IF Tier = "quick"
    THEN {<<>>, <<<<"abs", 4>>>>, <<<<"abs", 4>>, <<"abs", 8>>>>, <<<<"pct", 25>>>>, <<<<"abs", -4>>>>,
          <<<<"abs", 4>>, <<"abs", 8>>, <<"abs", 12>>>>,
          <<<<"abs", 4>>, <<"abs", 0>>, <<"abs", 8>>, <<"abs", 12>>>>}
    ELSE {<<>>, <<<<"abs", 4>>>>, <<<<"abs", 4>>, <<"abs", 8>>>>, <<<<"pct", 25>>>>, <<<<"abs", -4>>>>,
          <<<<"abs", 4>>, <<"abs", 8>>, <<"abs", 12>>>>, <<<<"abs", 4>>, <<"abs", 0>>, <<"abs", 8>>, <<"abs", 12>>>>,
          <<<<"pct", 50>>, <<"abs", 4>>>>, <<<<"pct", 25>>, <<"pct", 50>>, <<"abs", 0>>, <<"abs", -4>>>>}
ConBoxes == {B(0, 0, 16, 8), B(24, 4, 32, 28), B(-16, -12, -8, -4), B(4, 2, 12, 6)}
RefLists == {<<a>> : a \in ConBoxes} \cup {<<a, b>> : a \in ConBoxes, b \in ConBoxes}
            \cup (IF Tier = "quick" THEN {} ELSE {<<a, b, d>> : a \in ConBoxes, b \in ConBoxes, d \in ConBoxes})

SurroundCases ==
    {[fam |-> "contain", mode |-> "surround", refs |-> rl, refkinds |-> rk, kind |-> k, margin |-> m,
      exp |-> IF m = <<>> THEN UnionAll(rl) ELSE Grow(UnionAll(rl), m)] :
        \* ("nested": every listed element is itself a surround rect around a shape with that box)
        rl \in RefLists, rk \in {"rect", "ellipse", "line", "g", "mixed", "nested"}, k \in {"rect", "circle", "ellipse"}, m \in Margins}

\* inside: rect in rects (exact), rect in one ellipse/circle, circle/ellipse in one rect
\* (three and four listed boxes: the common area is that of ALL of them, whichever
\* position in the list the binding one has)
OverlapLists == {<<B(0, 0, 32, 24)>>, <<B(0, 0, 32, 24), B(8, 4, 40, 32)>>, <<B(-8, -8, 24, 24), B(0, 0, 48, 16)>>,
                 <<B(0, 0, 32, 24), B(8, 4, 24, 20), B(4, 0, 40, 32)>>,
                 <<B(0, 0, 32, 24), B(12, 8, 40, 32), B(4, 4, 36, 20)>>,
                 <<B(8, 8, 24, 20), B(0, 0, 32, 24), B(4, 0, 40, 32)>>,
                 <<B(0, 0, 40, 40), B(8, 0, 48, 32), B(0, 12, 32, 48), B(-8, -8, 28, 36)>>}
InsideCases ==
    {[fam |-> "contain", mode |-> "inside", refs |-> rl, refkinds |-> "rect", kind |-> k, margin |-> m,
      exp |-> IF m = <<>> THEN InterAll(rl) ELSE Shrink(InterAll(rl), m)] :
        rl \in OverlapLists, k \in {"rect", "circle", "ellipse"},
        m \in {<<>>, <<<<"abs", 4>>>>, <<<<"pct", 25>>>>, <<<<"abs", 4>>, <<"abs", 0>>>>,
               <<<<"abs", 4>>, <<"abs", 0>>, <<"abs", 2>>>>, <<<<"abs", 1>>, <<"abs", 4>>, <<"abs", 2>>, <<"abs", 0>>>>,
               <<<<"pct", 25>>, <<"abs", 0>>, <<"abs", 4>>, <<"pct", 50>>>>}}
    \cup
    {[fam |-> "contain", mode |-> "inside", refs |-> <<b>>, refkinds |-> rk, kind |-> "rect", margin |-> m,
      exp |-> b] :    \* exp: the enclosing shape's bounding box; result must lie within the shape
        b \in {B(0, 0, 32, 32), B(-16, 8, 16, 24)}, rk \in {"circle", "ellipse"}, m \in {<<>>, <<<<"abs", 4>>>>}}

\* lists without a common area: the statement fixes no geometry, but the
\* containment attributes must still not reach the output
DisjointCases ==
    {[fam |-> "contain", mode |-> "inside-disjoint", refs |-> rl, refkinds |-> "rect", kind |-> k, margin |-> m, exp |-> B(0, 0, 0, 0)] :
        rl \in {<<B(0, 0, 8, 8), B(20, 20, 28, 28)>>, <<B(0, 0, 16, 16), B(8, 8, 24, 24), B(40, 0, 48, 8)>>},
        k \in {"rect", "circle", "ellipse"}, m \in {<<>>, <<<<"abs", 4>>>>}}

ContainCases == SurroundCases \cup InsideCases \cup DisjointCases

ContainIdentities ==
    c.fam = "contain" =>
        \* the union encloses every listed box; growing by a non-negative margin keeps that
        /\ c.mode = "surround" /\ c.margin \in {<<>>, <<<<"abs", 4>>>>, <<<<"pct", 25>>>>} =>
              \A i \in 1..Len(c.refs) : /\ c.exp.x1 <= c.refs[i].x1 /\ c.exp.y1 <= c.refs[i].y1
                                         /\ c.exp.x2 >= c.refs[i].x2 /\ c.exp.y2 >= c.refs[i].y2
        \* an ellipse with semi-axes sqrt(2) * half extents circumscribes the box
        /\ c.mode = "surround" /\ W(c.exp) > 0 /\ H(c.exp) > 0 /\ W(c.exp) % 2 = 0 /\ H(c.exp) % 2 = 0 =>
              EnclosesSq(Cx(c.exp), Cy(c.exp), 2 * Half(W(c.exp)) * Half(W(c.exp)), 2 * Half(H(c.exp)) * Half(H(c.exp)), c.exp)
        /\ c.mode = "inside" /\ c.refkinds = "rect" /\ c.margin = <<>> =>
              \A i \in 1..Len(c.refs) : /\ c.exp.x1 >= c.refs[i].x1 /\ c.exp.y1 >= c.refs[i].y1
                                         /\ c.exp.x2 <= c.refs[i].x2 /\ c.exp.y2 <= c.refs[i].y2

(***************************************************************************)
(* C13: connectors                                                         *)
(***************************************************************************)
EdgeMids == <<"t", "b", "l", "r">>
Corners == <<"tl", "bl", "tr", "br">>
Cands(ctype) == CASE ctype = "straight" -> {"t", "b", "l", "r", "tl", "bl", "tr", "br"}
                  [] ctype = "h" -> {"l", "r"}
                  [] ctype = "v" -> {"t", "b"}
                  [] ctype = "corner" -> {"t", "r", "b", "l"}
D2(p, r) == (p[1] - r[1]) * (p[1] - r[1]) + (p[2] - r[2]) * (p[2] - r[2])
\* all pairs of candidate locations at minimal distance (ties: any is acceptable)
MinPairs(a, b, ctype) ==
    LET P == Cands(ctype) \X Cands(ctype)
        d(pr) == D2(Loc(a, pr[1]), Loc(b, pr[2]))
    IN {pr \in P : \A o \in P : d(pr) <= d(o)}
\* candidates of box b closest to a fixed point
MinLocs(b, p, ctype) == {l \in Cands(ctype) : \A o \in Cands(ctype) : D2(Loc(b, l), p) <= D2(Loc(b, o), p)}

ABox == B(0, 0, 8, 8)
Offsets == IF Tier = "quick" THEN {-24, 0, 24} ELSE {-24, -12, 0, 12, 24}
BBoxes == {Shift(B(0, 0, sz[1], sz[2]), ox, oy) : sz \in {<<8, 8>>, <<16, 4>>}, ox \in Offsets, oy \in Offsets}
           \cup {B(2, 2, 6, 6), B(8, 0, 16, 8)}      \* nested, touching

OverlapY(a, b) == Max(a.y1, b.y1) < Min(a.y2, b.y2)
OverlapX(a, b) == Max(a.x1, b.x1) < Min(a.x2, b.x2)

ConnCases ==
    \* both ends automatic
    {[fam |-> "conn", form |-> "auto", ctype |-> ct, a |-> ABox, b |-> bb,
      pairs |-> {<<Loc(ABox, pr[1]), Loc(bb, pr[2]), pr[1], pr[2]>> : pr \in MinPairs(ABox, bb, ct)}] :
        bb \in BBoxes, ct \in {"straight", "corner"}}
    \cup
    \* one end at a named location (or an edge offset), the other automatic
    {[fam |-> "conn", form |-> "oneloc", ctype |-> ct, a |-> ABox, b |-> bb, sloc |-> sl,
      pairs |-> {<<Loc(ABox, sl), Loc(bb, l), sl, l>> : l \in MinLocs(bb, Loc(ABox, sl), ct)}] :
        bb \in BBoxes, ct \in {"straight", "corner"}, sl \in {"t", "r", "b", "l"}}
    \cup
    {[fam |-> "conn", form |-> "bothloc", ctype |-> ct, a |-> ABox, b |-> bb, sloc |-> sl, eloc |-> el,
      pairs |-> {<<Loc(ABox, sl), Loc(bb, el), sl, el>>}] :
        bb \in BBoxes, ct \in {"straight", "corner"}, sl \in {"t", "r", "b", "l"}, el \in {"t", "r", "b", "l"}}
    \cup
    {[fam |-> "conn", form |-> "edge", ctype |-> "straight", a |-> ABox, b |-> bb, edge |-> e, okind |-> o[1], off |-> o[2],
      eloc |-> el, pairs |-> {<<EdgeLoc(ABox, e, o[1], o[2]), Loc(bb, el), e, el>>}] :
        bb \in BBoxes, e \in {"t", "r", "b", "l"}, o \in {<<"pct", 25>>, <<"abs", 2>>, <<"abs", -2>>, <<"abs", 0>>, <<"pct", 0>>, <<"pct", 100>>}, el \in {"l", "c"}}
    \cup
    \* a literal start point, automatic end
    {[fam |-> "conn", form |-> "point", ctype |-> "straight", a |-> ABox, b |-> bb, pt |-> p,
      pairs |-> {<<p, Loc(bb, l), "-", l>> : l \in MinLocs(bb, p, "straight")}] :
        bb \in BBoxes, p \in {<<-4, 2>>, <<20, 30>>}}
    \cup
    \* horizontal / vertical: axis-parallel through the middle of the overlap
    {[fam |-> "conn", form |-> "hv", ctype |-> "h", a |-> ABox, b |-> bb,
      mid |-> Half(Max(ABox.y1, bb.y1) + Min(ABox.y2, bb.y2)),
      pairs |-> {<<Loc(ABox, pr[1]), Loc(bb, pr[2]), pr[1], pr[2]>> : pr \in MinPairs(ABox, bb, "h")}] :
        bb \in {x \in BBoxes : OverlapY(ABox, x) /\ (Max(ABox.y1, x.y1) + Min(ABox.y2, x.y2)) % 2 = 0}}
    \cup
    {[fam |-> "conn", form |-> "hv", ctype |-> "v", a |-> ABox, b |-> bb,
      mid |-> Half(Max(ABox.x1, bb.x1) + Min(ABox.x2, bb.x2)),
      pairs |-> {<<Loc(ABox, pr[1]), Loc(bb, pr[2]), pr[1], pr[2]>> : pr \in MinPairs(ABox, bb, "v")}] :
        bb \in {x \in BBoxes : OverlapX(ABox, x) /\ (Max(ABox.x1, x.x1) + Min(ABox.x2, x.x2)) % 2 = 0}}

ConnIdentities ==
    c.fam = "conn" =>
        /\ c.pairs # {}
        \* every exported endpoint lies on the bounding box of its element
        /\ \A pr \in c.pairs :
              /\ (c.form # "point") => (pr[1][1] \in {c.a.x1, c.a.x2} \/ pr[1][2] \in {c.a.y1, c.a.y2})
              /\ (pr[2][1] \in {c.b.x1, c.b.x2} \/ pr[2][2] \in {c.b.y1, c.b.y2} \/ pr[2] = <<Cx(c.b), Cy(c.b)>>)

(***************************************************************************)
(* C08: root extent                                                        *)
(***************************************************************************)
FloorQ(n) == 4 * (IF n >= 0 THEN n \div 4 ELSE -((-n + 3) \div 4))
CeilQ(n) == -FloorQ(-n)
\* grow by the border (user units), round outward to whole user units
RootBox(e, border) == B(FloorQ(e.x1 - 4 * border), FloorQ(e.y1 - 4 * border), CeilQ(e.x2 + 4 * border), CeilQ(e.y2 + 4 * border))

\* items: [kind, box, counts]  - counts: whether the item contributes to E
ItemKinds == {"rect", "circle", "line", "box", "text", "point", "defs", "shapetext", "gtrans", "gscale", "specs", "symbol",
              "usex", "usey", "usexy",     \* <use> of a shape kept in <defs>, offset by x and / or y
              "usetrans",                  \* ... moved by its own transform="translate(20 -10)"
              "polyline", "path", "nestedsvg", "gnested", "clip", "reuse",
              \* the same rect rendered from inside a control element or a plain container
              "inif", "inloop", "infor", "ing", "ina", "ifoff", "loop0",
              "clipline",      \* a horizontal line clipped to a square at its start: a box without area
              "gflip", "gflipx",   \* mirrored: <g transform="scale(-1)">, <g transform="scale(-1 1)">
              "gtransvar",         \* <g transform="translate($tv)">: the transform given by a variable
              "textdxy", "textloc"} \* standalone text moved by text-dxy="4 -2" / by text-loc="br" (offset 1)
ItemBoxes == {B(2, 6, 18, 14), B(-22, -9, -6, 7), B(40, 1, 47, 30)}
Counts(k) == k \in {"rect", "circle", "line", "box", "text", "gtrans", "gscale", "shapetext", "usex", "usey", "usexy",
                     "polyline", "path", "nestedsvg", "gnested", "clip", "reuse", "inif", "inloop", "infor", "ing", "ina", "clipline", "gflip", "gflipx", "gtransvar", "textdxy", "textloc", "usetrans"}
\* ("ifoff": inside <if test="0">, "loop0": inside <loop count="0"> - never rendered, adds nothing)
\* the geometry an item contributes, given its base box
Contribution(k, b) ==
    CASE k = "text" -> B(b.x1, b.y1, b.x1, b.y1)                       \* standalone text: its anchor point
      [] k \in {"gtrans", "gtransvar"} -> Shift(b, 12, -8)             \* <g transform="translate(3 -2)">
      \* a standalone text counts by its anchor AS WRITTEN OUT: after text-dxy / text-loc moved it
      [] k = "textdxy" -> B(b.x1 + 16, b.y1 - 8, b.x1 + 16, b.y1 - 8)
      [] k = "textloc" -> B(b.x1 + 4, b.y1 + 4, b.x1 + 4, b.y1 + 4)
      [] k = "gscale" -> B(2 * b.x1, 2 * b.y1, 2 * b.x2, 2 * b.y2)       \* <g transform="scale(2)">
      [] k = "usex" -> Shift(b, 80, 0)                                   \* <use href x="20">
      [] k = "usey" -> Shift(b, 0, -40)                                  \* <use href y="-10">
      [] k \in {"usexy", "usetrans"} -> Shift(b, 80, -40)
      [] k = "gnested" -> Shift(B(2 * b.x1, 2 * b.y1, 2 * b.x2, 2 * b.y2), 12, -8)   \* translate(3 -2) outside scale(2)
      [] k = "gflip" -> B(-b.x2, -b.y2, -b.x1, -b.y1)                 \* a mirrored box still has its edges in order
      [] k = "gflipx" -> B(-b.x2, b.y1, -b.x1, b.y2)
      [] k = "clip" -> B(b.x1, b.y1, b.x1 + 4, b.y1 + 4)     \* clipped to a 1 x 1 clipPath at its corner
      [] k = "clipline" -> B(b.x1, b.y1, b.x1 + 4, b.y1)     \* the line y = y1 from x1 to x2, clipped likewise
      [] k = "reuse" -> Shift(b, 80, 40)                     \* instance of a template in <specs> at x/y offset
      [] k = "circle" -> B(b.x1, b.y1, b.x1 + H(b), b.y2)               \* circle of diameter H at the box's left
      [] OTHER -> b                                                      \* shapetext: the shape only, not its text
ItemLists ==
    {<<[k |-> k1, b |-> b1]>> : k1 \in ItemKinds, b1 \in ItemBoxes}
    \cup {<<[k |-> k1, b |-> b1], [k |-> k2, b |-> b2]>> :
              k1 \in ItemKinds, k2 \in (IF Tier = "quick" THEN {"rect", "text", "gscale", "point", "defs"} ELSE ItemKinds),
              b1 \in ItemBoxes, b2 \in ItemBoxes}
RECURSIVE Extent(_)
Extent(items) ==     \* union over contributing items; <<>> if none
    IF items = <<>> THEN <<>>
    ELSE LET h == Head(items)  r == Extent(Tail(items))
         IN IF ~Counts(h.k) THEN r
            ELSE IF r = <<>> THEN <<Contribution(h.k, h.b)>> ELSE <<Union(Contribution(h.k, h.b), r[1])>>

ExtentCases ==
    {[fam |-> "extent", items |-> il, border |-> bd, scale2 |-> sc, supplied |-> sup, order |-> o,
      has |-> Extent(il) # <<>>,
      root |-> IF Extent(il) = <<>> THEN B(0, 0, 0, 0) ELSE RootBox(Extent(il)[1], bd)] :
        il \in ItemLists, bd \in {0, 3, 5}, sc \in {2, 5},
        sup \in {"none", "w", "h", "wh", "vb", "w+vb"}, o \in {"fwd", "rev"}}

ExtentIdentities ==
    c.fam = "extent" /\ c.has =>
        LET e == Extent(c.items)[1]
        IN /\ c.root.x1 <= e.x1 - 4 * c.border /\ c.root.x2 >= e.x2 + 4 * c.border
           /\ c.root.y1 <= e.y1 - 4 * c.border /\ c.root.y2 >= e.y2 + 4 * c.border
           /\ c.root.x1 % 4 = 0 /\ c.root.x2 % 4 = 0 /\ c.root.y1 % 4 = 0 /\ c.root.y2 % 4 = 0
           /\ (e.x1 - 4 * c.border) - c.root.x1 < 4 /\ c.root.x2 - (e.x2 + 4 * c.border) < 4
           /\ RootBox(c.root, 0) = c.root

(***************************************************************************)
(* C19: placement of shape text                                            *)
(***************************************************************************)
IsTop(l) == l \in {"tl", "t", "tr"}
IsBottom(l) == l \in {"bl", "b", "br"}
IsLeft(l) == l \in {"tl", "l", "bl"}
IsRight(l) == l \in {"tr", "r", "br"}
\* text of lines (and with d-text-outside) is pushed outward, otherwise inward
IsOutside(shape, side) == side = "outside" \/ (side = "default" /\ shape = "line")
\* p: the point on the shape's box - a named location or a point along an edge (then
\* `loc` is the edge, and the text moves perpendicular to it only)
TextAnchorAt(p, loc, out, off, dx, dy) ==
    LET
        sx == IF IsLeft(loc) THEN (IF out THEN -off ELSE off) ELSE IF IsRight(loc) THEN (IF out THEN off ELSE -off) ELSE 0
        sy == IF IsTop(loc) THEN (IF out THEN -off ELSE off) ELSE IF IsBottom(loc) THEN (IF out THEN off ELSE -off) ELSE 0
    IN <<p[1] + sx + dx, p[2] + sy + dy>>
TextAnchor(b, loc, out, off, dx, dy) == TextAnchorAt(Loc(b, loc), loc, out, off, dx, dy)
\* alignment classes (styles reference): text inside the top edge is
\* top-aligned, text outside the top edge sits above it: bottom-aligned
AlignClasses(loc, out, vert) ==
    LET suffix == IF vert THEN "-vertical" ELSE ""
        v == IF IsTop(loc) THEN {IF out THEN "d-text-bottom" \o suffix ELSE "d-text-top" \o suffix}
             ELSE IF IsBottom(loc) THEN {IF out THEN "d-text-top" \o suffix ELSE "d-text-bottom" \o suffix} ELSE {}
        h == IF IsLeft(loc) THEN {IF out THEN "d-text-right" \o suffix ELSE "d-text-left" \o suffix}
             ELSE IF IsRight(loc) THEN {IF out THEN "d-text-left" \o suffix ELSE "d-text-right" \o suffix} ELSE {}
    IN {"d-text"} \cup v \cup h

TextPosCases ==
    {[fam |-> "textpos", shape |-> sh, box |-> b, loc |-> l, okind |-> "none", eoff |-> 0, side |-> sd, off |-> o, dx |-> d[1], dy |-> d[2], vert |-> vt,
      exp |-> TextAnchor(b, l, IsOutside(sh, sd), (IF o = 0 THEN 4 ELSE o), d[1], d[2]),
      classes |-> AlignClasses(l, IsOutside(sh, sd), vt)] :
        sh \in {"rect", "circle", "ellipse", "line"}, b \in {B(8, 12, 40, 28), B(-20, -8, -4, 8)}, l \in LocNames,
        sd \in {"default", "inside", "outside"}, o \in {0, 12}, d \in {<<0, 0>>, <<4, -8>>}, vt \in BOOLEAN}
    \cup
    \* a point along an edge: text-loc="t:25%", "l:1", "b:-2"
    {[fam |-> "textpos", shape |-> sh, box |-> b, loc |-> e, okind |-> eo[1], eoff |-> eo[2], side |-> sd, off |-> o, dx |-> d[1], dy |-> d[2], vert |-> vt,
      exp |-> TextAnchorAt(EdgeLoc(b, e, eo[1], eo[2]), e, IsOutside(sh, sd), (IF o = 0 THEN 4 ELSE o), d[1], d[2]),
      classes |-> AlignClasses(e, IsOutside(sh, sd), vt)] :
        sh \in {"rect", "ellipse"}, b \in {B(8, 12, 40, 28), B(-20, -8, -4, 8)}, e \in {"t", "r", "b", "l"},
        eo \in {<<"pct", 25>>, <<"pct", 100>>, <<"abs", 4>>, <<"abs", -4>>, <<"abs", 0>>},
        sd \in {"default", "outside"}, o \in {0, 12}, d \in {<<0, 0>>, <<4, -8>>}, vt \in {FALSE}}

\* multi-line text: one <tspan> per line, each at the text's x, stepping down by the line
\* spacing (thousandths of an em; default 1050); the block hangs from the anchor when the
\* text is top-aligned, stands on it when bottom-aligned, and is centred on it otherwise
VAlign(loc, out) == IF IsTop(loc) THEN (IF out THEN "bottom" ELSE "top")
                    ELSE IF IsBottom(loc) THEN (IF out THEN "top" ELSE "bottom") ELSE "middle"
TextLineCases ==
    {[fam |-> "textlines", shape |-> sh, box |-> B(8, 12, 40, 28), loc |-> l, side |-> sd, n |-> n, lsp |-> sp,
      step |-> (IF sp = 0 THEN 1050 ELSE sp),
      first |-> LET st == IF sp = 0 THEN 1050 ELSE sp
                    va == VAlign(l, IsOutside(sh, sd))
                IN CASE va = "top" -> 0 [] va = "bottom" -> -((n - 1) * st) [] OTHER -> -(((n - 1) * st) \div 2),
      anchor |-> TextAnchor(B(8, 12, 40, 28), l, IsOutside(sh, sd), 4, 0, 0)] :
        sh \in {"rect", "ellipse", "line"}, l \in LocNames, sd \in {"default", "inside", "outside"}, n \in 2..4, sp \in {0, 2000, 500}}

TextPosIdentities ==
    c.fam = "textpos" =>
        \* inward means towards the centre, outward away from it; the centre location never moves
        /\ c.loc = "c" /\ c.dx = 0 /\ c.dy = 0 => c.exp = Loc(c.box, "c")
        /\ c.dx = 0 /\ c.dy = 0 /\ IsLeft(c.loc) =>
              (IF IsOutside(c.shape, c.side) THEN c.exp[1] < c.box.x1 ELSE c.exp[1] > c.box.x1)
        /\ c.dx = 0 /\ c.dy = 0 /\ IsBottom(c.loc) =>
              (IF IsOutside(c.shape, c.side) THEN c.exp[2] > c.box.y2 ELSE c.exp[2] < c.box.y2)
        /\ "d-text" \in c.classes

(***************************************************************************)
(* C10: references that can never be satisfied make the transform fail,    *)
(* whatever the way the reference is written and used                      *)
(***************************************************************************)
UnsatCases ==
    {[fam |-> "unsat", target |-> t, via |-> v, form |-> f] :
        \* what the reference points at: nothing, an element with an id but no bounding box,
        \* the element itself, a partner that refers back
        t \in {"missing", "empty-g", "style-g", "defs-only-g", "self", "mutual", "point-size"},
        \* written with the id or as "the previous element"
        v \in {"id", "prev"},
        \* how the referring element uses it
        f \in {"dir", "loc", "loc-xy2", "loc-cxy", "scalar-x", "scalar-x2", "size", "size-circle", "size-ellipse", "size-line", "size-width",
               "line-xy1", "surround", "inside", "connector", "points"}}

(***************************************************************************)
(* C08: the box of a <path> - path data as a little machine.  State: the   *)
(* current point, the start of the current sub-path, the points visited.   *)
(* Every moveto starts a new sub-path; a closepath returns to the start of *)
(* the current one, and what follows (relative commands included) goes on  *)
(* from there.  Straight commands only: their box is the hull of the       *)
(* points visited.  Coordinates in user units (the harness scales).        *)
(***************************************************************************)
PathCmds == {<<"m", 6, 0>>, <<"M", 10, 9>>, <<"l", 3, -2>>, <<"L", 0, 8>>, <<"h", 5, 0>>, <<"H", -3, 0>>, <<"v", 4, 0>>, <<"V", 1, 0>>,
             <<"z", 0, 0>>, <<"Z", 0, 0>>, <<"l", -4, -5>>,
             \* bearing commands (SVG 2 CR 2016, brought back by svgdx): B sets the bearing, b adds to
             \* it; relative l / m / h / v are then taken along the bearing.  Quarter turns only
             \* (exact); the formulas are the CR's: l, m: (x cos + y sin, x sin + y cos),
             \* h: (x cos, x sin), v: (y sin, y cos)
             <<"B", 90, 0>>, <<"b", 90, 0>>, <<"b", -90, 0>>}
IsMove(k) == k[1] \in {"M", "m"}
IsClose(k) == k[1] \in {"z", "Z"}
IsBearing(k) == k[1] \in {"B", "b"}
Cos(d) == CASE d = 0 -> 1 [] d = 180 -> -1 [] OTHER -> 0
Sin(d) == CASE d = 90 -> 1 [] d = 270 -> -1 [] OTHER -> 0
PathStep(st, k) ==
    LET cur == st.cur
        co == Cos(st.brg)  si == Sin(st.brg)
        nxt == CASE k[1] = "M" -> <<k[2], k[3]>>
                 [] k[1] \in {"m", "l"} -> <<cur[1] + k[2] * co + k[3] * si, cur[2] + k[2] * si + k[3] * co>>
                 [] k[1] = "L" -> <<k[2], k[3]>>
                 [] k[1] = "H" -> <<k[2], cur[2]>> [] k[1] = "h" -> <<cur[1] + k[2] * co, cur[2] + k[2] * si>>
                 [] k[1] = "V" -> <<cur[1], k[2]>> [] k[1] = "v" -> <<cur[1] + k[2] * si, cur[2] + k[2] * co>>
                 [] IsBearing(k) -> cur
                 [] OTHER -> st.start
    IN [cur |-> nxt, start |-> IF IsMove(k) THEN nxt ELSE st.start, pts |-> st.pts \cup {nxt},
        brg |-> CASE k[1] = "B" -> k[2] % 360 [] k[1] = "b" -> (st.brg + k[2] + 360) % 360 [] OTHER -> st.brg]
RECURSIVE PathRun(_, _)
PathRun(st, ks) == IF ks = <<>> THEN st ELSE PathRun(PathStep(st, Head(ks)), Tail(ks))
PathStart == <<2, 3>>
PathBoxOf(ks) ==
    LET st == PathRun([cur |-> PathStart, start |-> PathStart, pts |-> {PathStart}, brg |-> 0], ks)
    IN B(CHOOSE x \in {p[1] : p \in st.pts} : \A p \in st.pts : x <= p[1], CHOOSE y \in {p[2] : p \in st.pts} : \A p \in st.pts : y <= p[2],
         CHOOSE x \in {p[1] : p \in st.pts} : \A p \in st.pts : x >= p[1], CHOOSE y \in {p[2] : p \in st.pts} : \A p \in st.pts : y >= p[2])
\* a moveto that draws nothing (followed by another moveto, a closepath or the end) is left
\* out: whether such a point belongs to the box is not stated anywhere
PathOK(ks) == \A i \in 1..Len(ks) : IsMove(ks[i]) => (i < Len(ks) /\ ~IsMove(ks[i + 1]) /\ ~IsClose(ks[i + 1]) /\ ~IsBearing(ks[i + 1]))
PathSeqs == UNION {[1..k -> PathCmds] : k \in 1..(IF Tier = "quick" THEN 3 ELSE 4)}
\* two sub-paths whatever the tier: a moveto, a drawing command, a closepath, and a relative command
\* that goes on from where the closepath returned to (the start of THAT sub-path)
TwoSubPaths == {<<mv, d1, cl, d2>> : mv \in {k \in PathCmds : IsMove(k)}, d1 \in {k \in PathCmds : ~IsMove(k) /\ ~IsClose(k) /\ ~IsBearing(k)},
                                    cl \in {k \in PathCmds : IsClose(k)}, d2 \in {k \in PathCmds : k[1] \in {"l", "h", "v"}}}
PathBoxCases ==
    {[fam |-> "pathbox", cmds |-> ks, box |-> PathBoxOf(ks)] : ks \in {s \in PathSeqs : PathOK(s) /\ ~IsClose(s[1])} \cup TwoSubPaths}
PathBoxIdentities ==
    c.fam = "pathbox" =>
        \* the start point is in the box; a closepath alone never changes the box
        /\ c.box.x1 <= PathStart[1] /\ c.box.x2 >= PathStart[1] /\ c.box.y1 <= PathStart[2] /\ c.box.y2 >= PathStart[2]
        /\ (IsClose(c.cmds[Len(c.cmds)]) /\ Len(c.cmds) > 1) => c.box = PathBoxOf(SubSeq(c.cmds, 1, Len(c.cmds) - 1))

Cases == CASE Family = "textlines" -> TextLineCases [] Family = "pathbox" -> PathBoxCases [] Family = "unsat" -> UnsatCases [] Family = "solve" -> SolveCases \cup PartialCases
           [] Family = "textpos" -> TextPosCases
           [] Family = "contain" -> ContainCases
           [] Family = "conn" -> ConnCases
           [] Family = "extent" -> ExtentCases
           [] Family = "rel" -> RelCases
           [] Family = "reusepos" -> ReusePosCases
           [] OTHER -> {}

Init == c \in Cases
Next == UNCHANGED c
Spec == Init /\ [][Next]_c

=============================================================================
