------------------------------ MODULE Frontend ------------------------------
(***************************************************************************)
(* The front-ends of svgdx and their histories (src/lib.rs transform_str / *)
(* transform_stream / transform_file, src/cli.rs, src/server.rs): requests *)
(* submitted through the library, the command (file or stdin in, file or   *)
(* stdout out) and the server endpoint, interleaved arbitrarily.  The      *)
(* transform itself is the uninterpreted function T of input and           *)
(* configuration: the properties say that every front-end returns exactly  *)
(* T, whatever else is going on (C07 Agree, isolation), that a failure is  *)
(* reported and leaves files untouched (C07 NoDamage, SameFileRefused),    *)
(* and that repeating a request gives the same answer (C06).               *)
(***************************************************************************)
EXTENDS Integers, Sequences, FiniteSets, TLC

CONSTANTS MaxReq, Deviations

Inputs == {"good1", "good2", "bad"}
Paths == {"in", "out1", "out2"}
T == [i \in Inputs |-> IF i = "bad" THEN "ERR" ELSE "svg:" \o i]     \* result of the transform
Fes == {"lib", "server", "cli-file", "cli-stdout"}

VARIABLES
    reqs,     \* sequence of requests [fe, input, out, ph, payload, status, before]
    files,    \* path -> content ("-" absent)
    last      \* deviation SharedState: a process-wide 'last output'

vars == <<reqs, files, last>>
Dev(d) == d \in Deviations

Init ==
    /\ reqs = <<>>
    /\ files \in {[p \in Paths |-> IF p = "in" THEN "src" ELSE c] : c \in {"-", "old"}}
    /\ last = "-"

\* a new request arrives at some front-end
Submit ==
    /\ Len(reqs) < MaxReq
    /\ \E fe \in Fes, i \in Inputs, o \in Paths :
          /\ (fe # "cli-file") => o = "out1"
          /\ reqs' = Append(reqs, [fe |-> fe, input |-> i, out |-> o, ph |-> "new", payload |-> "-",
                                   status |-> "-", before |-> files[o]])
    /\ UNCHANGED <<files, last>>

Set(k, r) == reqs' = [reqs EXCEPT ![k] = r]

\* the command refuses to write over its own input (checked before anything else)
CliSameFile(k) ==
    /\ reqs[k].fe = "cli-file" /\ reqs[k].ph = "new" /\ reqs[k].out = "in"
    /\ Set(k, [reqs[k] EXCEPT !.ph = "done", !.status = "fail"])
    /\ UNCHANGED <<files, last>>

\* the transform proper: a fresh transformer and context per call
Transform(k) ==
    /\ reqs[k].ph = "new" /\ ~(reqs[k].fe = "cli-file" /\ reqs[k].out = "in")
    /\ LET res == T[reqs[k].input]
       IN /\ Set(k, [reqs[k] EXCEPT !.ph = "transformed", !.payload = res])
          /\ last' = res
    /\ UNCHANGED files

\* library / server / stdout: hand the result (or the error) back
Return(k) ==
    /\ reqs[k].ph = "transformed" /\ reqs[k].fe # "cli-file"
    /\ LET res == IF Dev("SharedState") THEN last ELSE reqs[k].payload
       IN Set(k, [reqs[k] EXCEPT !.ph = "done", !.payload = res,
                                 !.status = IF res = "ERR" THEN "fail" ELSE "ok"])
    /\ UNCHANGED <<files, last>>

\* command with an output file: the result was written to a temporary file; it is
\* copied over the output only after success
CliCopy(k) ==
    /\ reqs[k].ph = "transformed" /\ reqs[k].fe = "cli-file"
    /\ IF reqs[k].payload = "ERR" /\ ~Dev("WriteInPlace")
       THEN /\ Set(k, [reqs[k] EXCEPT !.ph = "done", !.status = "fail"])
            /\ UNCHANGED files
       ELSE /\ files' = [files EXCEPT ![reqs[k].out] = IF reqs[k].payload = "ERR" THEN "partial" ELSE reqs[k].payload]
            /\ Set(k, [reqs[k] EXCEPT !.ph = "done", !.status = IF reqs[k].payload = "ERR" THEN "fail" ELSE "ok"])
    /\ UNCHANGED last

Step(k) == CliSameFile(k) \/ Transform(k) \/ Return(k) \/ CliCopy(k)
Next == Submit \/ \E k \in 1..Len(reqs) : Step(k)
Spec == Init /\ [][Next]_vars /\ \A k \in 1..MaxReq : WF_vars(k <= Len(reqs) /\ Step(k))

Done(k) == reqs[k].ph = "done"

\* every completed request returned exactly the transform of ITS input
Agree == \A k \in 1..Len(reqs) :
            (Done(k) /\ ~(reqs[k].fe = "cli-file" /\ reqs[k].out = "in")) =>
                /\ reqs[k].status = (IF T[reqs[k].input] = "ERR" THEN "fail" ELSE "ok")
                /\ (reqs[k].fe # "cli-file" /\ reqs[k].status = "ok") => reqs[k].payload = T[reqs[k].input]
ErrorsReported == \A k \in 1..Len(reqs) : (Done(k) /\ T[reqs[k].input] = "ERR") => reqs[k].status = "fail"
SameFileRefused == \A k \in 1..Len(reqs) :
            (Done(k) /\ reqs[k].fe = "cli-file" /\ reqs[k].out = "in") => reqs[k].status = "fail" /\ files["in"] = "src"
\* files only ever hold what some successful command wrote (or what was there)
FilesSane == \A p \in Paths : files[p] \in {"-", "old", "src"} \cup {T[i] : i \in Inputs \ {"bad"}}
\* a step of a failing request never changes a file
NoDamage == [][\A k \in 1..Len(reqs) :
                 (k <= Len(reqs') /\ reqs'[k] # reqs[k] /\ T[reqs[k].input] = "ERR") => files' = files]_vars
\* same (input) => same result, whatever the history (C06)
Functional == \A j, k \in 1..Len(reqs) :
                 (Done(j) /\ Done(k) /\ reqs[j].input = reqs[k].input /\ reqs[j].fe # "cli-file" /\ reqs[k].fe # "cli-file")
                     => reqs[j].payload = reqs[k].payload
\* the process keeps serving: every submitted request completes
Served == \A k \in 1..MaxReq : [](k <= Len(reqs) => <>(k <= Len(reqs) /\ Done(k)))
=============================================================================
