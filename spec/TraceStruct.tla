---------------------------- MODULE TraceStruct ----------------------------
(***************************************************************************)
(* Trace specification for ANY document: validates an event log recorded   *)
(* by the `verif` hooks of the real code (several transforms concatenated) *)
(* against the bookkeeping discipline of Interp.tla:                       *)
(*                                                                         *)
(*   - enter/exit events are properly bracketed;                           *)
(*   - the depth counter, scope-stack height, element-stack height and     *)
(*     in-specs flag observed when an element is LEFT - on success and on  *)
(*     every error path - equal those observed when it was ENTERED         *)
(*     (relative form of DepthIsNesting / ScopeBalanced / SpecsBalanced);  *)
(*   - every depth / scope event changes its counter by exactly one;       *)
(*   - retry passes of one sibling list never grow, their number is        *)
(*     bounded, and a pass reports exactly its failed tags as remaining;   *)
(*   - loop iterations are counted one by one;                             *)
(*   - the path / bearing scanners advance on every step;                  *)
(*   - the transform ends with a clean probe and an `end` event.           *)
(*                                                                         *)
(* Evaluation strategy is not constrained.  Events the specification has   *)
(* no opinion about are consumed as stuttering steps.                      *)
(***************************************************************************)
EXTENDS Integers, Sequences, TLC, Json, IOUtils

Rec == ndJsonDeserialize(IOEnv.TRACE)

VARIABLES
    l,        \* next event to consume
    open,     \* stack of entered elements with the state seen at entry
    depth, h, els, specs,   \* mirrors of the context bookkeeping
    pst,      \* stack of process_tags invocations
    scanIdx,  \* last scanner index (-1: fresh)
    base,     \* 1 once the global scope exists (ensure_scope)
    running,  \* inside a transform
    lim       \* limits in force and what was observed about them (C17)

tvars == <<l, open, depth, h, els, specs, pst, scanIdx, base, running, lim>>

Ev == Rec[l]
Is(k) == l <= Len(Rec) /\ Rec[l].e = k
Consume == l' = l + 1

Top(s) == s[Len(s)]
Pop(s) == SubSeq(s, 1, Len(s) - 1)

TBegin ==
    /\ Is("begin") /\ Consume
    /\ ~running
    /\ open' = <<>> /\ depth' = 0 /\ h' = 0 /\ els' = 0 /\ specs' = FALSE
    /\ pst' = <<>> /\ scanIdx' = -1 /\ base' = 0 /\ running' = TRUE

TDepth ==
    /\ Is("depth") /\ Consume /\ running
    /\ Ev.d \in {1, -1}
    /\ Ev.now = depth + Ev.d
    /\ depth' = Ev.now
    /\ UNCHANGED <<open, h, els, specs, pst, scanIdx, base, running>>

TScope ==
    /\ Is("scope") /\ Consume /\ running
    /\ \/ /\ Ev.op = "push" /\ Ev.h = h + 1 /\ Ev.els = els + 1
          /\ open' = open /\ base' = base
       \/ /\ Ev.op = "pop" /\ h > base /\ Ev.h = h - 1 /\ Ev.els = els - 1
          /\ open' = open /\ base' = base
       \/ \* a deferred tag is evaluated in the environment saved at its place: the stack of
          \* variable scopes is exchanged for one of the same nesting (it can differ only in
          \* whether the global scope existed yet), and exchanged back afterwards
          /\ Ev.op = "swap" /\ Ev.els = els /\ Ev.h - h \in {-1, 0, 1} /\ base + (Ev.h - h) \in {0, 1}
          /\ open' = [i \in 1..Len(open) |-> [open[i] EXCEPT !.h = @ + (Ev.h - h)]]
          /\ base' = base + (Ev.h - h)
       \/ \* first <var> at top level creates the global scope below everything
          /\ Ev.op = "ensure" /\ h = 0 /\ base = 0 /\ Ev.h = 1 /\ Ev.els = els
          /\ open' = [i \in 1..Len(open) |-> [open[i] EXCEPT !.h = @ + 1]]
          /\ base' = 1
    /\ h' = Ev.h /\ els' = Ev.els
    /\ UNCHANGED <<depth, specs, pst, scanIdx, running>>

TEnter ==
    /\ Is("enter") /\ Consume /\ running
    /\ Ev.depth = depth /\ Ev.h = h /\ Ev.els = els
    /\ open' = Append(open, [idx |-> Ev.idx, name |-> Ev.name, depth |-> Ev.depth, h |-> Ev.h,
                             els |-> Ev.els, specs |-> Ev.specs, it |-> 0, pst |-> Len(pst)])
    /\ specs' = Ev.specs
    /\ UNCHANGED <<depth, h, els, pst, scanIdx, base, running>>

\* The heart of C15 / C17: whatever path leaves the element, the context
\* bookkeeping is back to what it was on entry.
TExit ==
    /\ Is("exit") /\ Consume /\ running
    /\ open # <<>>
    /\ LET t == Top(open)
       IN /\ t.idx = Ev.idx /\ t.name = Ev.name
          /\ Ev.depth = t.depth /\ depth = t.depth
          /\ Ev.h = t.h /\ h = t.h
          /\ Ev.els = t.els /\ els = t.els
          /\ Ev.specs = t.specs
          \* an error may have cut process_tags invocations short
          /\ pst' = SubSeq(pst, 1, t.pst)
    /\ open' = Pop(open)
    /\ specs' = Ev.specs
    /\ UNCHANGED <<depth, h, els, scanIdx, base, running>>

\* process_tags: a pass begins
TPass ==
    /\ Is("pass") /\ Consume /\ running
    /\ IF pst # <<>> /\ Top(pst).st = "cont"
       THEN \* next pass of the same list: exactly the failed tags; the list never
            \* grows.  (A pass may repeat a size: an element positioned for the first
            \* time inside a failed container is progress too; the number of passes is
            \* bounded by what can become known, which the trace does not show - the
            \* watchdog of C01 judges termination.)
            /\ Ev.pending = Top(pst).rem
            /\ Ev.pending <= Top(pst).pending
            /\ pst' = [pst EXCEPT ![Len(pst)] = [st |-> "in", pending |-> Ev.pending, seen |-> 0, failed |-> 0,
                                                  rem |-> 0, n |-> Top(pst).n + 1, init |-> Top(pst).init]]
       ELSE /\ Ev.pending > 0
            /\ pst' = Append(pst, [st |-> "in", pending |-> Ev.pending, seen |-> 0, failed |-> 0, rem |-> 0,
                                   n |-> 1, init |-> Ev.pending])
    /\ UNCHANGED <<open, depth, h, els, specs, scanIdx, base, running>>

TTag ==
    /\ Is("tag") /\ Consume /\ running
    /\ pst # <<>> /\ Top(pst).st = "in"
    /\ Top(pst).seen < Top(pst).pending
    /\ pst' = [pst EXCEPT ![Len(pst)].seen = @ + 1,
                          ![Len(pst)].failed = IF ~Ev.ok /\ ~Ev.specs THEN @ + 1 ELSE @]
    /\ UNCHANGED <<open, depth, h, els, specs, scanIdx, base, running>>

TPassEnd ==
    /\ Is("passend") /\ Consume /\ running
    /\ pst # <<>> /\ Top(pst).st = "in"
    /\ LET t == Top(pst)
       IN /\ t.seen = t.pending
          /\ Ev.remain = t.failed
          /\ Ev.remain <= t.pending
          /\ (Ev.remain < t.pending) => Ev.ok
          /\ pst' = IF Ev.ok /\ Ev.remain > 0
                    THEN [pst EXCEPT ![Len(pst)].st = "cont", ![Len(pst)].rem = Ev.remain]
                    ELSE Pop(pst)
    /\ UNCHANGED <<open, depth, h, els, specs, scanIdx, base, running>>

TIter ==
    /\ Is("iter") /\ Consume /\ running
    /\ open # <<>> /\ Top(open).name \in {"loop", "for"}
    /\ Ev.n = Top(open).it + 1
    /\ open' = [open EXCEPT ![Len(open)].it = Ev.n]
    /\ UNCHANGED <<depth, h, els, specs, pst, scanIdx, base, running>>

TScanBegin ==
    /\ Is("scanbegin") /\ Consume /\ running
    /\ scanIdx' = -1
    /\ UNCHANGED <<open, depth, h, els, specs, pst, base, running>>

\* scanners must consume input on every step
TScan ==
    /\ Is("scan") /\ Consume /\ running
    /\ Ev.idx > scanIdx /\ Ev.idx < Ev.len
    /\ scanIdx' = Ev.idx
    /\ UNCHANGED <<open, depth, h, els, specs, pst, base, running>>

\* context dropped: real values of the bookkeeping fields
TProbe ==
    /\ Is("probe") /\ Consume /\ running
    /\ Ev.depth = 0 /\ Ev.els = 0 /\ Ev.specs = FALSE /\ Ev.h = base
    /\ UNCHANGED <<open, depth, h, els, specs, pst, scanIdx, base, running>>

TEnd ==
    /\ Is("end") /\ Consume /\ running
    /\ open = <<>>
    /\ running' = FALSE
    /\ UNCHANGED <<open, depth, h, els, specs, pst, scanIdx, base>>

\* no opinion: configuration, registration, variable writes, PRNG draws
TOther ==
    /\ l <= Len(Rec) /\ Rec[l].e \in {"config", "reg", "setvar", "rng", "eval"}
    /\ Consume
    /\ UNCHANGED <<open, depth, h, els, specs, pst, scanIdx, base, running>>

(***************************************************************************)
(* Limit discipline (C17), observed next to every step above:              *)
(*   - a loop reports the limit that is configured at that moment, counts  *)
(*     at most one pass beyond it, and the transform then fails with a     *)
(*     loop-limit error - and only then;                                   *)
(*   - the depth counter never exceeds the depth limit, and a depth-limit  *)
(*     error is only reported by a transform whose counter reached it.     *)
(***************************************************************************)
HasErr(k) == \E i \in 1..Len(Ev.errs) : Ev.errs[i] = k
LimOK ==
    /\ Is("iter") => Ev.limit = lim.ll /\ Ev.n <= Ev.limit + 1
    /\ (Is("depth") /\ Ev.d = 1) => Ev.now <= lim.dl
    /\ Is("end") => /\ HasErr("loop") <=> lim.over
                    /\ HasErr("depth") => lim.atlim
                    /\ lim.over => ~Ev.ok
LimStep ==
    lim' = IF Is("begin") THEN [dl |-> Ev.depth_limit, ll |-> Ev.loop_limit, over |-> FALSE, atlim |-> FALSE]
           ELSE IF Is("config") THEN [lim EXCEPT !.dl = Ev.depth_limit, !.ll = Ev.loop_limit]
           ELSE IF Is("iter") THEN [lim EXCEPT !.over = @ \/ Ev.n > Ev.limit]
           ELSE IF Is("depth") THEN [lim EXCEPT !.atlim = @ \/ Ev.now >= lim.dl]
           ELSE lim

TNext == /\ TBegin \/ TDepth \/ TScope \/ TEnter \/ TExit \/ TPass \/ TTag \/ TPassEnd
            \/ TIter \/ TScanBegin \/ TScan \/ TProbe \/ TEnd \/ TOther
         /\ LimOK /\ LimStep

TInit ==
    /\ l = 1 /\ open = <<>> /\ depth = 0 /\ h = 0 /\ els = 0 /\ specs = FALSE
    /\ pst = <<>> /\ scanIdx = -1 /\ base = 0 /\ running = FALSE
    /\ lim = [dl |-> 0, ll |-> 0, over |-> FALSE, atlim |-> FALSE]

TraceSpec == TInit /\ [][TNext]_tvars

\* state invariants evaluated at every step of every observed execution
DepthNonNeg == depth >= 0 /\ h >= 0 /\ els >= 0
\* (a shape whose text is written as content is dispatched a second time with the text as an
\* attribute - the same element, entered again at the same depth: not a level of nesting)
Nest == Len(SelectSeq([i \in 1..Len(open) |-> i],
                      LAMBDA i : i = 1 \/ open[i].idx # open[i - 1].idx \/ open[i].name # open[i - 1].name))
DepthIsOpen == running => depth >= Nest - 1

\* remember how far the trace was matched
Progress == TLCSet(1, l) /\ TLCSet(2, running)

Accepted ==
    IF TLCGet("stats").diameter - 1 = Len(Rec) /\ ~TLCGet(2)
    THEN TRUE
    ELSE /\ PrintT(<<"TRACE-REJECTED", "matched", TLCGet(1) - 1, "of", Len(Rec),
                     IF TLCGet(1) <= Len(Rec) THEN ToJson(Rec[TLCGet(1)]) ELSE "missing end">>)
         /\ FALSE

=============================================================================
