-------------------------------- MODULE Expr --------------------------------
(***************************************************************************)
(* The {{...}} expression language (docs/mdbook/src/reference/             *)
(* expressions.md, property C14): abstract syntax, the conventional        *)
(* grammar (precedence, left associativity, unary minus, word operators    *)
(* for comparison and logic, comma lists, function calls) as a recursive-  *)
(* descent parser over token sequences, and Unparse (minimal and redundant *)
(* parentheses).  TLC checks Parse(Unparse(t)) = t for every tree within   *)
(* the bounds - i.e. that the concrete syntax means the tree the author    *)
(* intends - and exports (tokens, tree) pairs.  Values are NOT computed    *)
(* here: IEEE single precision is outside TLC's numbers; the harness       *)
(* evaluates the exported TREE (no parsing involved) in f32.               *)
(***************************************************************************)
EXTENDS Integers, Sequences, FiniteSets, TLC

CONSTANTS Family, Tier
VARIABLE c

\* ---- abstract syntax ------------------------------------------------------
Num(v) == [op |-> "num", v |-> v, a |-> <<>>]         \* v: a numeral string
Var(x) == [op |-> "var", v |-> x, a |-> <<>>]
Str(x) == [op |-> "str", v |-> x, a |-> <<>>]         \* x: the quoted token, e.g. "'a,b'"
\* a top-level comma list {{e1, e2}} is the node Call("list", <<e1, e2>>)
Neg(t) == [op |-> "neg", v |-> "-", a |-> <<t>>]
Bin(o, l, r) == [op |-> "bin", v |-> o, a |-> <<l, r>>]
Call(f, args) == [op |-> "call", v |-> f, a |-> args]

MulOps == {"*", "/", "%"}
AddOps == {"+", "-"}
CmpOps == {"lt", "gt", "le", "ge", "eq", "ne"}
LogOps == {"and", "or", "xor"}
Prec(t) == CASE t.op = "bin" /\ t.v \in LogOps -> 1
             [] t.op = "bin" /\ t.v \in CmpOps -> 2
             [] t.op = "bin" /\ t.v \in AddOps -> 3
             [] t.op = "bin" /\ t.v \in MulOps -> 4
             [] t.op = "neg" -> 5
             [] OTHER -> 6

\* ---- concrete syntax -------------------------------------------------------
RECURSIVE Unparse(_, _, _), UnparseArgs(_, _)
\* tokens of t in a context requiring precedence >= p; `red`: add redundant parentheses
Unparse(t, p, red) ==
    LET body ==
          CASE t.op = "num" -> <<t.v>>
            [] t.op = "var" -> <<"$" \o t.v>>
            [] t.op = "str" -> <<t.v>>
            [] t.op = "call" /\ t.v = "list" -> UnparseArgs(t.a, red)
            [] t.op = "neg" -> <<"-">> \o Unparse(t.a[1], 6, red)
            [] t.op = "call" -> <<t.v, "(">> \o UnparseArgs(t.a, red) \o <<")">>
            [] t.op = "bin" ->
                 LET q == Prec(t)
                     \* comparison does not chain: both sides one level tighter;
                     \* the others associate to the left
                     lp == IF t.v \in CmpOps THEN q + 1 ELSE q
                 IN Unparse(t.a[1], lp, red) \o <<t.v>> \o Unparse(t.a[2], q + 1, red)
    IN IF Prec(t) < p \/ (red /\ t.op \in {"bin", "neg"}) THEN <<"(">> \o body \o <<")">> ELSE body
UnparseArgs(args, red) ==
    IF args = <<>> THEN <<>>
    ELSE IF Len(args) = 1 THEN Unparse(args[1], 1, red)
    ELSE Unparse(args[1], 1, red) \o <<",">> \o UnparseArgs(Tail(args), red)

\* ---- the grammar: recursive descent, returns [ok, t, i] ----------------------
Fail == [ok |-> FALSE, t |-> Num("0"), i |-> 0]
Ok(t, i) == [ok |-> TRUE, t |-> t, i |-> i]
Tok(ts, i) == IF i <= Len(ts) THEN ts[i] ELSE "<eof>"
IsNumeral(s) == s \in {"0", "1", "2", "3", "7", "10", "0.5", "2.5", "0.25", "100", "30", "45", "90", "65536", "32768", "0.0004", "3000", "100000000"}
IsVar(s) == s \in {"$a", "$b"}
IsStr(s) == s \in {"'a,b'", "'a b  c'", "'  a '", "','", "'-'", "'a'", "'b'", "'a.b.c'", "'.'"}
Fixed1 == {"abs", "ceil", "floor", "fract", "sign", "sqrt", "log", "exp", "sin", "cos", "tan", "asin", "acos", "atan", "not"}
Fixed2 == {"divmod", "pow", "randint", "eq", "ne", "lt", "le", "gt", "ge", "and", "or", "xor", "swap", "r2p", "p2r"}
Fixed3 == {"clamp", "mix", "if"}
Variadic == {"min", "max", "sum", "product", "mean", "select", "addv", "subv", "scalev", "head", "tail", "empty", "count", "in"}
StrFuns == {"split", "splitw", "trim", "join"}
FunNames == Fixed1 \cup Fixed2 \cup Fixed3 \cup Variadic \cup StrFuns
RECURSIVE PLogical(_, _), PLogicalRest(_, _, _), PCmp(_, _), PTerm(_, _), PTermRest(_, _, _),
          PFactor(_, _), PFactorRest(_, _, _), PPrimary(_, _), PArgs(_, _, _)

PPrimary(ts, i) ==
    LET k == Tok(ts, i)
    IN IF IsNumeral(k) THEN Ok(Num(k), i + 1)
       ELSE IF IsVar(k) THEN Ok(Var(SubSeq(k, 2, Len(k))), i + 1)
       ELSE IF IsStr(k) THEN Ok(Str(k), i + 1)
       ELSE IF k = "(" THEN
            LET r == PLogical(ts, i + 1)
            IN IF r.ok /\ Tok(ts, r.i) = ")" THEN Ok(r.t, r.i + 1) ELSE Fail
       ELSE IF k = "-" THEN
            LET r == PPrimary(ts, i + 1) IN IF r.ok THEN Ok(Neg(r.t), r.i) ELSE Fail
       ELSE IF k \in FunNames /\ Tok(ts, i + 1) = "(" THEN
            IF Tok(ts, i + 2) = ")" THEN Ok(Call(k, <<>>), i + 3)
            ELSE LET r == PArgs(ts, i + 2, <<>>)
                 IN IF r.ok /\ Tok(ts, r.i) = ")" THEN Ok(Call(k, r.t.a), r.i + 1) ELSE Fail
       ELSE Fail
\* argument list; returned packed in a call node
PArgs(ts, i, acc) ==
    LET r == PLogical(ts, i)
    IN IF ~r.ok THEN Fail
       ELSE IF Tok(ts, r.i) = "," THEN PArgs(ts, r.i + 1, Append(acc, r.t))
       ELSE Ok(Call("args", Append(acc, r.t)), r.i)

PFactor(ts, i) == LET r == PPrimary(ts, i) IN IF r.ok THEN PFactorRest(ts, r.t, r.i) ELSE Fail
PFactorRest(ts, l, i) ==
    IF Tok(ts, i) \in MulOps
    THEN LET r == PPrimary(ts, i + 1) IN IF r.ok THEN PFactorRest(ts, Bin(Tok(ts, i), l, r.t), r.i) ELSE Fail
    ELSE Ok(l, i)
PTerm(ts, i) == LET r == PFactor(ts, i) IN IF r.ok THEN PTermRest(ts, r.t, r.i) ELSE Fail
PTermRest(ts, l, i) ==
    IF Tok(ts, i) \in AddOps
    THEN LET r == PFactor(ts, i + 1) IN IF r.ok THEN PTermRest(ts, Bin(Tok(ts, i), l, r.t), r.i) ELSE Fail
    ELSE Ok(l, i)
PCmp(ts, i) ==
    LET l == PTerm(ts, i)
    IN IF ~l.ok THEN Fail
       ELSE IF Tok(ts, l.i) \in CmpOps
            THEN LET r == PTerm(ts, l.i + 1) IN IF r.ok THEN Ok(Bin(Tok(ts, l.i), l.t, r.t), r.i) ELSE Fail
            ELSE l
PLogical(ts, i) == LET r == PCmp(ts, i) IN IF r.ok THEN PLogicalRest(ts, r.t, r.i) ELSE Fail
PLogicalRest(ts, l, i) ==
    IF Tok(ts, i) \in LogOps
    THEN LET r == PCmp(ts, i + 1) IN IF r.ok THEN PLogicalRest(ts, Bin(Tok(ts, i), l, r.t), r.i) ELSE Fail
    ELSE Ok(l, i)

\* the whole expression is a comma list; a list of one is the element itself
Parse(ts) == LET r == PArgs(ts, 1, <<>>)
             IN IF r.ok /\ r.i = Len(ts) + 1
                THEN (IF Len(r.t.a) = 1 THEN Ok(r.t.a[1], r.i) ELSE Ok(Call("list", r.t.a), r.i))
                ELSE Fail

\* ---- trees ---------------------------------------------------------------------
Leaves == {Num("1"), Num("2"), Num("3"), Num("0.5"), Num("7"), Var("a")}
Ops1 == IF Tier = "quick" THEN {"+", "-", "*", "/", "%", "lt", "and"} ELSE MulOps \cup AddOps \cup CmpOps \cup LogOps
D1 == Leaves \cup {Neg(l) : l \in {Num("2"), Var("a")}} \cup {Bin(o, l, r) : o \in Ops1, l \in {Num("7"), Num("2"), Var("a")}, r \in {Num("3"), Num("0.5"), Var("a")}}
Ops2 == IF Tier = "quick" THEN {"-", "/", "*", "%", "+"} ELSE {"-", "/", "*", "%", "+", "lt", "eq", "or", "and"}
D2 == {Bin(o, l, r) : o \in Ops2, l \in D1, r \in D1} \cup {Neg(t) : t \in D1}
\* comparison cannot be an operand of a comparison without parentheses, and does not chain:
\* Unparse adds the parentheses, Parse must give the tree back

Arity == [f \in FunNames |->
            CASE f \in Fixed1 \cup {"splitw", "trim"} -> 1
              [] f \in Fixed2 \cup {"split"} -> 2
              [] f \in Fixed3 -> 3
              [] OTHER -> -1]     \* variadic
ArgPool == {Num("2"), Num("0.5"), Neg(Num("3")), Bin("+", Num("1"), Var("a")), Num("30")}
SmallPool == {Num("2"), Num("0.5"), Neg(Num("3"))}
VarArgLists == {<<>>} \cup {<<x>> : x \in SmallPool} \cup {<<x, y>> : x \in SmallPool, y \in SmallPool}
               \cup {<<x, y, z>> : x \in {Num("2"), Num("0"), Num("1")}, y \in SmallPool, z \in {Num("7"), Var("a")}}
               \cup {<<Num("1"), x, Num("3"), y>> : x \in SmallPool, y \in {Num("2"), Num("0.25")}}
CallTrees ==
    UNION {IF Arity[f] = 1 THEN {Call(f, <<x>>) : x \in ArgPool \cup {Num("1"), Num("0.25"), Num("45")}}
           ELSE IF Arity[f] = 2 THEN {Call(f, <<x, y>>) : x \in ArgPool \cup {Num("7")}, y \in ArgPool}
           ELSE IF Arity[f] = 3 THEN {Call(f, <<x, y, z>>) : x \in {Num("2"), Num("0.5"), Neg(Num("3"))}, y \in {Num("1"), Var("a")}, z \in {Num("3"), Num("0.25")}}
           ELSE {Call(f, l) : l \in VarArgLists} :
           f \in FunNames \ StrFuns}
\* list-valued results flow into argument lists (flattened) and to the top level
ListTrees ==
    {Call("list", <<x, y>>) : x \in SmallPool \cup {Bin("+", Num("1"), Var("a"))}, y \in {Num("7"), Call("max", <<Num("1"), Var("a")>>)}}
    \cup {Call("list", <<Call("sum", <<Num("1"), Num("2")>>), Num("3"), Neg(Var("a"))>>)}
    \cup {Call(f, <<Call(g, <<x, y>>), z>>) : f \in {"sum", "head", "count", "max", "product", "tail"},
                                              g \in {"swap", "divmod", "r2p", "p2r", "tail", "addv", "scalev"},
                                              x \in {Num("7"), Num("3")}, y \in {Num("2")}, z \in {Num("3")}}
    \cup {Call("select", <<Num("1"), Call("tail", <<Num("1"), Num("2"), Num("3")>>)>>)}
    \cup {Call("addv", <<Call("swap", <<Num("1"), Num("2")>>), Call("scalev", <<Num("2"), Num("3"), Var("a")>>)>>)}
StrTrees ==
    {Call("split", <<Str("','"), Str("'a,b'")>>), Call("split", <<Str("'.'"), Str("'a.b.c'")>>),
     Call("splitw", <<Str("'a b  c'")>>), Call("trim", <<Str("'  a '")>>),
     Call("join", <<Str("'-'"), Str("'a'"), Str("'b'")>>),
     Call("count", <<Call("split", <<Str("'.'"), Str("'a.b.c'")>>)>>),
     Call("count", <<Call("splitw", <<Str("'a b  c'")>>)>>),
     Call("join", <<Str("'-'"), Call("split", <<Str("','"), Str("'a,b'")>>)>>),
     Call("head", <<Call("splitw", <<Str("'a b  c'")>>)>>),
     Call("list", <<Str("'a'"), Num("2")>>)}
\* IEEE special values: produced by division (1/0 = inf, 0/0 = NaN), they flow through arithmetic
\* and comparison like any number - every comparison with NaN is false except `ne`
SpecialLeaves == {Bin("/", Num("0"), Num("0")), Bin("/", Num("1"), Num("0")), Neg(Bin("/", Num("1"), Num("0")))}
SpecialTrees ==
    SpecialLeaves
    \cup {Bin(o, l, r) : o \in CmpOps \cup AddOps \cup {"*", "/"}, l \in SpecialLeaves \cup {Num("1"), Num("0")}, r \in SpecialLeaves \cup {Num("1")}}
    \cup {Call(f, <<l, r>>) : f \in CmpOps, l \in SpecialLeaves \cup {Num("1")}, r \in SpecialLeaves \cup {Num("1")}}
\* whole numbers around the 32-bit boundary (2^31 = 65536 * 32768) and values below the
\* three decimals numbers are printed with: still numbers, and non-zero as conditions
EdgeTrees ==
    {Bin("*", Num("65536"), Num("32768")), Neg(Bin("*", Num("65536"), Num("32768"))), Bin("*", Num("65536"), Num("65536")),
     Bin("-", Bin("*", Num("65536"), Num("32768")), Num("1")), Bin("+", Bin("*", Num("65536"), Num("32768")), Num("0.5")),
     Num("0.0004"), Neg(Num("0.0004")), Bin("/", Num("1"), Num("3000")), Bin("-", Num("0.0004"), Num("0.0004")),
     Bin("*", Num("0.0004"), Num("3000")), Call("not", <<Num("0.0004")>>), Call("if", <<Num("0.0004"), Num("1"), Num("2")>>),
     Bin("and", Num("0.0004"), Num("1")), Bin("or", Num("0.0004"), Num("0")),
     \* operands of very different magnitude: the end points of mix() are exact whatever the other end is
     Call("mix", <<Num("100000000"), Num("1"), Num("1")>>), Call("mix", <<Num("1"), Num("100000000"), Num("0")>>),
     Call("mix", <<Num("100000000"), Num("3"), Num("1")>>), Call("clamp", <<Num("100000000"), Num("1"), Num("3")>>),
     Call("max", <<Num("100000000"), Num("1")>>), Bin("-", Bin("+", Num("100000000"), Num("1")), Num("100000000"))}
NestedCalls == {Bin("+", Call("max", <<Num("1"), Call("abs", <<Neg(Var("a"))>>)>>), Bin("*", Num("2"), Call("min", <<x, Num("3")>>))) : x \in ArgPool}

GoodCases ==
    {[fam |-> "good", tree |-> t, red |-> r, toks |-> Unparse(t, 1, r)] : t \in D1 \cup D2 \cup CallTrees \cup NestedCalls \cup ListTrees \cup StrTrees \cup SpecialTrees \cup EdgeTrees, r \in BOOLEAN}

\* malformed: derived from good token strings
Drop(ts, i) == SubSeq(ts, 1, i - 1) \o SubSeq(ts, i + 1, Len(ts))
BadFromGood(ts) ==
    {[kind |-> "unbalanced", toks |-> Drop(ts, i)] : i \in {j \in 1..Len(ts) : ts[j] \in {"(", ")"}}}
    \cup {[kind |-> "unbalanced", toks |-> <<"(">> \o ts]} \cup {[kind |-> "unbalanced", toks |-> ts \o <<")">>]}
    \cup {[kind |-> "dangling-operator", toks |-> ts \o <<"+">>]}
    \cup {[kind |-> "unknown-function", toks |-> [j \in 1..Len(ts) |-> IF j = i THEN "nosuchfn" ELSE ts[j]]] :
              i \in {j \in 1..Len(ts) : ts[j] \in FunNames /\ Tok(ts, j + 1) = "("}}
    \cup {[kind |-> "undefined-variable", toks |-> [j \in 1..Len(ts) |-> IF ts[j] = "$a" THEN "$undefinedvar" ELSE ts[j]]] :
              i \in {1} \cap {1 : j \in {k \in 1..Len(ts) : ts[k] = "$a"}}}
BadArity == {[kind |-> "arity", toks |-> Unparse(Call(f, [i \in 1..n |-> Num("2")]), 1, FALSE)] :
                f \in Fixed1 \cup Fixed2 \cup Fixed3, n \in 0..4} \ {x \in {[kind |-> "arity", toks |-> Unparse(Call(f, [i \in 1..Arity[f] |-> Num("2")]), 1, FALSE)] : f \in FunNames} : TRUE}
BadCases ==
    {[fam |-> "bad", kind |-> b.kind, toks |-> b.toks] :
        b \in UNION {BadFromGood(Unparse(t, 1, FALSE)) : t \in D1 \cup CallTrees \cup NestedCalls}
              \cup {x \in BadArity : Len(x.toks) >= 3}}

\* ---- properties ----------------------------------------------------------------
\* the concrete syntax means the intended tree
RoundTrip == c.fam = "good" => LET r == Parse(c.toks) IN r.ok /\ r.t = c.tree
\* a malformed string has no parse in the grammar (arity and undefined names are
\* semantic errors: outside the grammar, the implementation must still reject them)
NoParse == (c.fam = "bad" /\ c.kind \in {"unbalanced", "dangling-operator"}) => ~Parse(c.toks).ok
WrongArity == (c.fam = "bad" /\ c.kind = "arity") =>
                 LET r == Parse(c.toks) IN r.ok => Len(r.t.a) # Arity[r.t.v]

Cases == CASE Family = "good" -> GoodCases [] Family = "bad" -> BadCases [] OTHER -> {}
Init == c \in Cases
Next == UNCHANGED c
Spec == Init /\ [][Next]_c
=============================================================================
