----------------------------- MODULE IdealEval -----------------------------
(***************************************************************************)
(* The reference meaning (Sem.Ideal) used as an executable oracle for       *)
(* documents that are too large to be enumerated by the model checker       *)
(* (default-limit instances: thousands of siblings, nesting 100, loops of   *)
(* 1000 iterations).  Reads NDJSON records [doc, dl, ll, vl, str, iv] from  *)
(* the file named by the environment variable DOCS and prints the           *)
(* prediction for each.                                                     *)
(***************************************************************************)
EXTENDS Sem, Json, IOUtils

Docs == ndJsonDeserialize(IOEnv.DOCS)

Pred(r) ==
    LET I == Ideal(r.doc, [doc |-> r.doc, dl |-> r.dl, ll |-> r.ll, vl |-> r.vl, str |-> r.str, iv |-> r.iv, rc |-> 1])
    IN [res |-> I.res, n |-> Len(I.items), rng |-> I.rng, refsok |-> RefsOK(I.refs, r.doc),
        nesting |-> Nesting(r.doc),
        first |-> IF I.items = <<>> THEN <<>> ELSE <<I.items[1]>>,
        last |-> IF I.items = <<>> THEN <<>> ELSE <<I.items[Len(I.items)]>>]

ASSUME \A i \in 1..Len(Docs) : PrintT(<<"REPLAY", ToJson([i |-> i, p |-> Pred(Docs[i])])>>)

VARIABLE x
Init == x = 0
Next == UNCHANGED x
=============================================================================
