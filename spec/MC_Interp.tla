----------------------------- MODULE MC_Interp -----------------------------
(* TLC-only wrapper: behaviour export for replay against the implementation *)
EXTENDS Interp, Json, IOUtils

Neg1 == -1

\* one line per finished behaviour: the document, its limits, what the
\* specification predicts (reference meaning + this machine's outcome)
Export ==
    phase = "done" =>
        LET I == IdealNow
        IN PrintT(<<"REPLAY", ToJson([family |-> Family, doc |-> FullDoc, rawdoc |-> doc, lim |-> lim0, str |-> StrMode, iv |-> InitVal,
                                     dev |-> Deviations, esc |-> ~AllNodesOK(doc),
                                     res |-> result, items |-> Proj(out),
                                     stale |-> ~NoStale(out),
                                     ideal |-> I.res, idealrc0 |-> Ideal(FullDoc, [Ctx EXCEPT !.rc = 0]).res, iitems |-> I.items, unr |-> I.unr,
                                     irng |-> I.rng, rng |-> rng,
                                     norefs |-> (I.refs = {}),
                                     refsok |-> RefsOK(I.refs, FullDoc),
                                     nesting |-> Nesting(FullDoc), passes |-> passes])>>)

\* Run the machine on given documents (NDJSON records with rawdoc, lim in the
\* file named by the environment variable GIVEN) instead of building them:
\* used to obtain the prediction of a deviation for exactly the documents a
\* simulation produced.
Given == ndJsonDeserialize(IOEnv.GIVEN)

InitGiven ==
    /\ \E i \in 1..Len(Given) : doc = Given[i].rawdoc /\ lim = Given[i].lim /\ lim0 = Given[i].lim
    /\ phase = "run"
    /\ ret = RetNone
    /\ depth = 0 /\ scopes = <<InitScope(UNDEF)>>
    /\ emap = [i \in Ids |-> "none"] /\ omap = {}
    /\ inSpecs = FALSE /\ rng = 0
    /\ result = "running" /\ out = <<>> /\ passes = 0
    /\ gx = [i \in Ids |-> 0] /\ px = 0
    /\ stack = <<NewPe(FullDoc)>>

SpecGiven == InitGiven /\ [][RunNext]_vars
=============================================================================
