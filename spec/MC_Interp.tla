----------------------------- MODULE MC_Interp -----------------------------
(* TLC-only wrapper: behaviour export for replay against the implementation *)
EXTENDS Interp, Json

\* one line per finished behaviour: the document, its limits, what the
\* specification predicts (reference meaning + this machine's outcome)
Export ==
    phase = "done" =>
        LET I == IdealNow
        IN PrintT(<<"REPLAY", ToJson([family |-> Family, doc |-> doc, lim |-> lim, str |-> StrMode, iv |-> InitVal,
                                     dev |-> Deviations,
                                     res |-> result, items |-> Proj(out),
                                     stale |-> ~NoStale(out),
                                     ideal |-> I.res, idealrc0 |-> Ideal(doc, [Ctx EXCEPT !.rc = 0]).res, iitems |-> I.items, unr |-> I.unr,
                                     irng |-> I.rng, rng |-> rng,
                                     norefs |-> (I.refs = {}),
                                     refsok |-> RefsOK(I.refs, doc),
                                     nesting |-> Nesting(doc), passes |-> passes])>>)
=============================================================================
