------------------------------ MODULE Totality ------------------------------
(***************************************************************************)
(* Property C01 as a specification of OUTCOMES: for every input the        *)
(* transform ends in "ok" or "err" - never "panic", "abort" (stack         *)
(* exhaustion) or "hang".  The input space is described by three bounded   *)
(* families whose members the harness instantiates:                        *)
(*                                                                         *)
(*   depth   - Construct x DepthClass: one syntactic construct repeated or *)
(*             nested n times, n around the limits and far beyond them     *)
(*   lex     - sequences of XML token classes, well-formed or not, with an *)
(*             optional non-UTF-8 byte at every lexical position           *)
(*   (scanner token sequences come from Scan.tla, programs from Interp.tla)*)
(*                                                                         *)
(* Allowed(c) is the set of outcomes the properties permit for a case:     *)
(* always a subset of {"ok", "err"}, narrowed where another property (C17) *)
(* fixes the verdict.                                                      *)
(***************************************************************************)
EXTENDS Integers, Sequences, FiniteSets, TLC

CONSTANTS Family, Tier
VARIABLE c

Constructs == {
    "nest-g", "nest-svg", "nest-a", "nest-text-content", "nest-loop", "nest-if",
    "reuse-self", "reuse-mutual", "reuse-chain", "use-chain", "use-self",
    "parens", "unary-minus", "nested-calls", "binary-chain", "comma-list", "string-concat",
    "var-chain", "var-self", "var-rho", "var-growth",
    "path-length", "path-junk", "points-length", "transform-list", "bearing-length",
    "siblings", "siblings-text", "attrs-many", "attr-long", "text-long", "comment-long",
    "retry-chain", "retry-nested", "retry-nested-ws", "retry-siblings", "retry-nested-tail", "clip-cycle", "clip-chain", "var-chain-fwd", "var-tree", "ref-cycle", "surround-chain", "loop-count", "loop-nested-count", "for-list",
    "xml-depth", "entity-like", "defaults-many", "class-many"}
DepthClasses == IF Tier = "quick" THEN {1, 10, 99, 100, 101, 1000, 20000}
                ELSE {1, 2, 10, 50, 99, 100, 101, 200, 1000, 5000, 20000, 100000}

\* element nesting proper: the verdict is fixed by the depth limit (default 100,
\* the harness wraps nothing around these)
NestingConstructs == {"nest-g", "nest-a"}
Allowed(k, n) ==
    IF k \in NestingConstructs THEN (IF n > 100 THEN {"err"} ELSE {"ok"})
    ELSE IF k \in {"reuse-self", "reuse-mutual", "use-self", "var-self", "var-rho", "ref-cycle", "clip-cycle"} THEN {"err"}
    ELSE {"ok", "err"}

DepthCases == {[fam |-> "depth", construct |-> k, n |-> n, allowed |-> Allowed(k, n)] : k \in Constructs, n \in DepthClasses}

\* XML token classes
XmlToks == {"open", "close", "empty", "text", "comment", "cdata", "pi", "doctype", "xmldecl",
            "close-mismatch", "dup-attr", "bad-entity", "unterminated-tag", "unterminated-comment", "unquoted-attr", "lone-lt"}
Positions == {"none", "element-name", "attr-name", "attr-value", "text", "comment", "cdata", "pi", "doctype"}
XmlSeqs == UNION {[1..k -> XmlToks] : k \in 0..(IF Tier = "quick" THEN 2 ELSE 3)}
LexCases == {[fam |-> "lex", toks |-> s, nonutf8 |-> p, root |-> r, allowed |-> {"ok", "err"}] :
                s \in XmlSeqs, p \in Positions, r \in {"svg", "svg-ns", "none"}}

\* token classes of the expression / variable-reference syntax, ASCII and not,
\* in every context that evaluates expressions
ExprToks == {"num", "var", "var-nonascii", "var-brace", "var-brace-nonascii", "var-brace-open", "elref", "elref-nonascii",
             "op", "minus", "lparen", "rparen", "comma", "str", "str-escape", "str-open", "func", "word", "word-nonascii",
             "dot", "percent", "space", "dollar"}
ExprSeqs == UNION {[1..k -> ExprToks] : k \in 1..(IF Tier = "quick" THEN 2 ELSE 3)}
ExprContexts == {"attr-braces", "attr-plain", "if-test", "loop-while", "loop-count", "var-value", "text", "for-data", "reuse-attr"}
ExprLexCases == {[fam |-> "exprlex", toks |-> s, ctx |-> x, allowed |-> {"ok", "err"}] : s \in ExprSeqs, x \in ExprContexts}

\* every built-in function and operator applied to extreme numbers (integer and float
\* boundaries, infinities through overflow, tiny values, zero divisors), in the places a
\* number is turned into a count, an index or a length
Extremes == {"0", "-0", "1e39", "-1e39", "2147483647", "2147483648", "-2147483648", "-2147483649", "4294967296",
             "18446744073709551616", "1e-46", "16777217", "0.5", "-1", "1e39 - 1e39", "1/0", "0/0"}
\* ("1e39 - 1e39" is infinity minus infinity: not a number)
Extremes2 == IF Tier = "quick" THEN {"0", "-1", "1e39", "2147483647", "2147483648", "-2147483649", "1e-46", "0/0", "0.5", "1e39 - 1e39"} ELSE Extremes
Fns1 == {"abs", "ceil", "floor", "fract", "sign", "sqrt", "log", "exp", "sin", "cos", "tan", "asin", "acos", "atan", "not",
         "head", "tail", "count", "empty", "sum", "product", "mean", "min", "max"}
Fns2 == {"divmod", "pow", "randint", "eq", "lt", "and", "swap", "r2p", "p2r", "select", "scalev", "in", "min", "addv"}
Fns3 == {"clamp", "mix", "if", "select"}
ExprNumCases ==
    {[fam |-> "exprnum", fn |-> f, args |-> <<x>>, ctx |-> "attr-braces", allowed |-> {"ok", "err"}] : f \in Fns1, x \in Extremes}
    \cup {[fam |-> "exprnum", fn |-> f, args |-> <<x, y>>, ctx |-> "attr-braces", allowed |-> {"ok", "err"}] :
              f \in Fns2 \cup {"+", "-", "*", "/", "%"}, x \in Extremes2, y \in Extremes2}
    \cup {[fam |-> "exprnum", fn |-> f, args |-> <<x, y, z>>, ctx |-> "attr-braces", allowed |-> {"ok", "err"}] :
              f \in Fns3, x \in {"1e39", "-1", "0/0", "1e39 - 1e39"}, y \in {"0", "2147483648", "-1e39", "1e39 - 1e39"},
              z \in {"1e39", "-2147483649", "0.5", "1e39 - 1e39"}}
    \* numbers that become counts, sizes, indices
    \cup {[fam |-> "exprnum", fn |-> "-", args |-> <<x>>, ctx |-> cx, allowed |-> {"ok", "err"}] :
              x \in Extremes, cx \in {"loop-count", "loop-start-step", "geometry", "for-data", "repeat-text", "config-limit", "font-size", "seed"}}

\* attributes with a grammar of their own (number lists, transform functions, locations,
\* element references, lengths with units): every value class in every attribute, on every
\* kind of element that reads the attribute
MicroAttrs == {"transform:translate", "transform:scale", "transform:rotate", "transform:skewX", "transform:matrix", "transform:raw",
               "xy", "cxy", "wh", "dxy", "xy1", "xy2", "x", "width", "r", "rx", "rxy", "points", "d", "start", "end",
               "text-dxy", "text-offset", "text-loc", "text-lsp", "font-size", "margin", "surround", "inside",
               "corner-offset", "corner-radius", "edge-type", "rotate", "href", "viewBox", "style", "class", "clip-path"}
ValueClasses == {"empty", "space", "word", "unit", "mixed", "comma-only", "many", "open-paren", "neg", "pct", "elref", "elref-missing",
                 "elref-loc", "elref-dangling", "nan", "inf", "huge", "tiny", "expr", "expr-list", "nonascii", "loc", "dir", "sci", "plus", "dot", "semicolon"}
AttrHosts == {"rect", "rect-content", "g", "text", "line", "connector", "polyline-connector", "circle", "use", "reuse", "path", "root"}
AttrLexCases == {[fam |-> "attrlex", attr |-> a, cls |-> v, host |-> h, allowed |-> {"ok", "err"}] :
                    a \in MicroAttrs, v \in ValueClasses, h \in AttrHosts}

Cases == CASE Family = "attrlex" -> AttrLexCases [] Family = "exprnum" -> ExprNumCases [] Family = "depth" -> DepthCases [] Family = "lex" -> LexCases [] Family = "exprlex" -> ExprLexCases [] OTHER -> {}
Init == c \in Cases
Next == UNCHANGED c
Spec == Init /\ [][Next]_c

Total == c.allowed \subseteq {"ok", "err"} /\ c.allowed # {}
=============================================================================
