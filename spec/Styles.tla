------------------------------- MODULE Styles -------------------------------
(***************************************************************************)
(* Auto-styles (docs/mdbook/src/reference/styles.md, property C20) and the *)
(* order in which they are emitted (property C06).                         *)
(*                                                                         *)
(* A case is the set of reserved classes used by a document, the element   *)
(* kinds present and the settings; the design function says which rules    *)
(* and definitions are injected.  The emission order of the pattern rules  *)
(* is modelled with an explicit permutation `perm` standing for the        *)
(* iteration order of a hash set: the design sorts, so the result does not *)
(* depend on it; the deviation HashOrderLeaks uses it as is.               *)
(***************************************************************************)
EXTENDS Integers, Sequences, FiniteSets, TLC

CONSTANTS Family, Deviations
VARIABLE c

\* reduced vocabulary: representatives of every family of the reference
ColourClasses == {"d-red", "d-fill-darkblue", "d-text-none", "d-text-ol-red", "d-none"}
TextClasses == {"d-text-bold", "d-text-large", "d-text-ol-thick"}      \* need a text element
StrokeClasses == {"d-thin"}
ArrowClasses == {"d-arrow", "d-biarrow"}
DashClasses == {"d-dash", "d-dot", "d-dot-dash", "d-flow", "d-flow-fast", "d-flow-slower", "d-flow-rev"}
PatternClasses == {"d-grid", "d-grid-5", "d-grid-05", "d-hatch-10", "d-stipple-2"}   \* 5 and 05: one spacing, two classes, two ids
ShadowClasses == {"d-softshadow", "d-hardshadow"}
Other == {"d-surround"}
Vocab == ColourClasses \cup TextClasses \cup StrokeClasses \cup ArrowClasses \cup DashClasses
         \cup PatternClasses \cup ShadowClasses \cup Other
NotReserved == {"myclass"}

\* definition (id) a class's rule refers to through url(#id); "-" if none
UrlOf(k) == CASE k \in ArrowClasses -> "d-arrow"
              [] k \in PatternClasses -> SubSeq(k, 3, Len(k))
              [] k \in ShadowClasses -> k
              [] OTHER -> "-"

\* the design: a rule for a reserved class iff the class is used (text rules
\* additionally need a text element to apply to)
Rules(used, elems) == {k \in used \cap Vocab : k \in TextClasses => "text" \in elems}
Defs(used, elems) == {UrlOf(k) : k \in {r \in Rules(used, elems) : UrlOf(r) # "-"}}
Injected(used, elems, on, root) == on /\ root

\* emission order of the pattern rules: `perm` is the hash iteration order
Less(a, b) == \* lexicographic order on strings of equal alphabet via TLC's string comparison is not
              \* available: order by position in a fixed listing
    LET L == <<"d-grid", "d-grid-05", "d-grid-5", "d-hatch-10", "d-stipple-2">>
        pos(x) == CHOOSE i \in 1..Len(L) : L[i] = x
    IN pos(a) < pos(b)
Perms(S) == {p \in [1..Cardinality(S) -> S] : \A i, j \in 1..Cardinality(S) : i # j => p[i] # p[j]}
EmitOrder(perm) == IF "HashOrderLeaks" \in Deviations THEN perm ELSE SortSeq(perm, Less)

UsedSets == IF Family = "full" THEN {{k1, k2, k3, k4} : k1 \in Vocab, k2 \in Vocab, k3 \in Vocab, k4 \in Vocab} \cup {{}, Vocab}
            ELSE {{k1, k2, k3} : k1 \in Vocab, k2 \in Vocab, k3 \in Vocab} \cup {{}, Vocab}
Cases ==
    {[fam |-> "styles", used |-> u \cup x, elems |-> e[1], place |-> e[2], on |-> ol[1], root |-> ol[2], form |-> ol[3], local |-> ol[4],
      rules |-> IF Injected(u, e[1], ol[1], ol[2]) THEN Rules(u, e[1]) ELSE {},
      defs |-> IF Injected(u, e[1], ol[1], ol[2]) THEN Defs(u, e[1]) ELSE {}] :
        u \in UsedSets, x \in {{}, NotReserved},
        \* where the classes sit: on the shapes, or spread over the author-written <tspan>
        \* children of a <text> (the design looks at every output element alike)
        \* ("root": some of the classes sit on the root <svg> itself - an output element like any other)
        e \in {<<{"rect"}, "shape">>, <<{"rect", "text"}, "shape">>, <<{"rect", "text"}, "tspan">>, <<{"rect"}, "root">>},
        \* the document is its outermost element: an <svg> inside or after another element is part
        \* of a fragment, and a fragment gets nothing
        \* (local styles only change how the injected rules are written: varied where rules are injected)
        ol \in {<<TRUE, TRUE, "root", TRUE>>, <<TRUE, TRUE, "root", FALSE>>, <<FALSE, TRUE, "root", FALSE>>, <<TRUE, FALSE, "fragment", FALSE>>,
                <<TRUE, FALSE, "svg-in-g", FALSE>>}
               \cup (IF Family = "full" THEN {} ELSE {<<TRUE, FALSE, "svg-after-shape", FALSE>>, <<FALSE, TRUE, "root", TRUE>>})}

Init == c \in Cases
Next == UNCHANGED c
Spec == Init /\ [][Next]_c

\* C20 on the design
Minimal == c.rules \subseteq c.used /\ \A d \in c.defs : \E k \in c.rules : UrlOf(k) = d
Complete == (c.on /\ c.root) => \A k \in c.used \cap Vocab : (k \in TextClasses => "text" \in c.elems) => k \in c.rules
Closed == \A k \in c.rules : UrlOf(k) # "-" => UrlOf(k) \in c.defs
NothingWhenOff == (~c.on \/ ~c.root) => c.rules = {} /\ c.defs = {}
\* C06 on the design: the emitted order does not depend on the hash order
PermIndependent ==
    LET P == c.used \cap PatternClasses
    IN \A p, q \in Perms(P) : EmitOrder(p) = EmitOrder(q)
=============================================================================
