----------------------------- MODULE SvgSyntax -----------------------------
(***************************************************************************)
(* Generative grammars of the SVG 1.1 micro-syntaxes other than path data  *)
(* (which is Scan.tla): numbers, lengths, point lists, transform lists and *)
(* references.  Property C04: content written with these must be accepted  *)
(* and preserved in svgdx mode.  A case is a derivation (which alternative *)
(* of every production was taken); the harness spells it out.              *)
(***************************************************************************)
EXTENDS Integers, Sequences, FiniteSets, TLC

CONSTANTS Family, Tier
VARIABLE c

\* number ::= sign? (digits | digits "." digits? | "." digits) exponent?
Signs == {"", "-", "+"}
\* ("huge": whole numbers beyond 32-bit integers; "small": more decimals than the output keeps)
Mantissas == {"int", "dec", "leaddot", "traildot", "huge", "small"}
Exponents == {"", "e", "E", "e+", "e-"}
Numbers == {[sign |-> s, mant |-> m, exp |-> e] : s \in Signs, m \in Mantissas, e \in Exponents}
\* length ::= number unit?
Units == {"", "px", "mm", "cm", "in", "pt", "pc", "em", "ex", "%"}
PlainNumbers == {n \in Numbers : n.exp = "" /\ n.mant \in {"int", "dec"}}

\* (single precision: a huge value swallows the small coordinates it is combined with, so huge
\* numbers are used where the attribute stands alone - sizes and presentation values - and
\* without exponent)
SoloAttrs == {"solo:line:x1", "solo:line:y1", "solo:line:x2", "solo:line:y2",
              "solo:rect:x", "solo:rect:y", "solo:rect:width", "solo:rect:height", "solo:rect:rx", "solo:rect:ry",
              "solo:circle:cx", "solo:circle:cy", "solo:circle:r",
              "solo:ellipse:cx", "solo:ellipse:cy", "solo:ellipse:rx", "solo:ellipse:ry",
              "solo:text:x", "solo:text:y", "solo:use:x", "solo:use:y",
              "solo:image:x", "solo:image:y", "solo:image:width", "solo:image:height"}
NumCases == {x \in {[fam |-> "number", num |-> n, unit |-> u, attr |-> a] :
                n \in (IF Tier = "quick" THEN {x \in Numbers : x.exp \in {"", "e", "e-"}} ELSE Numbers),
                u \in (IF Tier = "quick" THEN {"", "px", "mm", "%", "em"} ELSE Units),
                \* ("line-end-only": a line that gives only x2 / y2 - the start is at 0; "root-width": the only
                \* dimension the author gives on the root; "use-x": the offset of an instance)
                a \in {"rect-x", "rect-width", "circle-r", "line-x2", "stroke-width", "text-x", "stop-offset", "font-size",
                       "line-end-only", "root-width", "use-x", "ellipse-cx", "ellipse-cy", "circle-cy", "rect-y", "line-y1", "text-x-only", "text-y-only"}
                      \* ("solo": a fully specified shape in which exactly ONE geometry attribute carries the length
                      \* under test and all the others are plain numbers - every attribute of every basic shape in turn)
                      \cup SoloAttrs} :
             x.num.mant = "huge" => x.attr \in {"rect-width", "stroke-width", "font-size", "stop-offset"} /\ x.num.exp = ""}

\* points ::= coordinate-pair (comma-wsp coordinate-pair)*
PointCases == {[fam |-> "points", n |-> n, pairsep |-> ps, pointsep |-> pt, shape |-> sh, num |-> nm] :
                  n \in 1..4, ps \in {",", " ", " , ", "sign"}, pt \in {" ", ",", "\n"}, sh \in {"polyline", "polygon"},
                  nm \in {"int", "dec", "neg", "exp"}}

\* transform-list ::= transform (comma-wsp? transform)*
Funcs == {"translate1", "translate2", "scale1", "scale2", "rotate1", "rotate3", "skewX", "skewY", "matrix"}
FuncLists == {<<f>> : f \in Funcs} \cup {<<f, g>> : f \in Funcs, g \in {"translate2", "scale1", "rotate1"}}
             \cup (IF Tier = "quick" THEN {} ELSE {<<f, g, h>> : f \in {"translate1", "matrix"}, g \in Funcs, h \in {"scale2", "skewX"}})
\* (asep "sign": nothing between two arguments but the sign of the second; wsp: blanks between
\* the name and the parenthesis, and inside the parentheses)
TransformCases == {[fam |-> "transform", funcs |-> fl, fsep |-> fs, asep |-> as, wsp |-> w, el |-> e] :
                      fl \in FuncLists, fs \in {" ", ",", "", " , "}, as \in {" ", ",", " , ", "sign"}, w \in {"", "before", "inside"},
                      e \in {"g", "rect", "path", "text"}}

\* references
RefCases == {[fam |-> "ref", form |-> f, target |-> t] :
                f \in {"use-href", "use-xlink", "fill-url", "stroke-url", "clip-path", "marker-end", "filter", "mask", "textpath-href", "a-href", "image-href",
                       \* references that leave the document, and the other ways to write a clip-path
                       "use-external", "use-external-xlink", "clip-path-none", "clip-path-quoted", "clip-path-dquoted", "clip-path-spaced",
                       "clip-path-shape", "clip-path-external", "fill-url-quoted"},
                t \in {"before", "after"}}

\* <use>: x / y translate the referenced element, whatever it is and wherever it is drawn
UseCases == {[fam |-> "use", form |-> f, where |-> w, tkind |-> k, attrs |-> a] :
                f \in {"href", "xlink"}, w \in {"before", "after", "defs"},
                k \in {"rect0", "rect-off", "circle0", "circle-off", "ellipse-off", "line", "g", "symbol", "path", "text"},
                a \in {"xy", "x", "y", "none", "neg"}}

\* element vocabulary: one document per structural snippet (indices into the harness's table)
\* ("svg-attrs": the author's own attributes on the root - id, class, style, data - are content too)
VocabCases == {[fam |-> "vocab", snippet |-> i, wrap |-> w] : i \in 1..31, w \in {"svg", "svg-g", "fragment", "svg-attrs"}}

Cases == CASE Family = "number" -> NumCases [] Family = "points" -> PointCases [] Family = "transform" -> TransformCases
           [] Family = "ref" -> RefCases [] Family = "use" -> UseCases [] Family = "vocab" -> VocabCases [] OTHER -> {}
Init == c \in Cases
Next == UNCHANGED c
Spec == Init /\ [][Next]_c

\* every case is a derivation of its grammar (type correctness of the generators)
Derivable ==
    /\ c.fam = "number" => c.num \in Numbers /\ c.unit \in Units
    /\ c.fam = "transform" => \A i \in 1..Len(c.funcs) : c.funcs[i] \in Funcs
    /\ c.fam = "points" => c.n >= 1
=============================================================================
