------------------------------ MODULE MC_Scan ------------------------------
EXTENDS Scan, Json
Export == result # "running" => PrintT(<<"REPLAY", ToJson([toks |-> toks, result |-> result])>>)
=============================================================================
