--------------------------- MODULE TraceFrontend ---------------------------
(***************************************************************************)
(* Trace specification for recorded HISTORIES of real front-end use        *)
(* (library calls in threads, svgdx command runs, HTTP requests to one     *)
(* svgdx-server process), checked against the rules of Frontend.tla:       *)
(*   table events  - the function T measured by fresh library processes;   *)
(*                   a key observed twice must give the same result (C06   *)
(*                   Functional);                                          *)
(*   op events     - one completed request: it must return T of its own    *)
(*                   input (Agree), report failures (ErrorsReported),      *)
(*                   leave the output file untouched on failure (NoDamage) *)
(*                   and refuse to overwrite its input (SameFileRefused).  *)
(* The server answering 400 for an empty successful output is a deliberate *)
(* deviation of src/server.rs and is allowed (ServerRejectEmpty).          *)
(***************************************************************************)
EXTENDS Integers, Sequences, TLC, Json, IOUtils

Rec == ndJsonDeserialize(IOEnv.TRACE)

VARIABLES l, table
tvars == <<l, table>>

Is(k) == l <= Len(Rec) /\ Rec[l].e = k
Ev == Rec[l]
Known(k) == k \in DOMAIN table

TTable ==
    /\ Is("table")
    /\ IF Known(Ev.key)
       THEN table[Ev.key] = [status |-> Ev.status, hash |-> Ev.hash] /\ table' = table
       ELSE table' = [k \in DOMAIN table \cup {Ev.key} |->
                         IF k = Ev.key THEN [status |-> Ev.status, hash |-> Ev.hash] ELSE table[k]]
    /\ l' = l + 1

PayloadFes == {"lib", "lib-thread", "lib-stream", "lib-str", "server", "cli-stdout", "cli-stdin-stdout"}

TOp ==
    /\ Is("op")
    /\ Known(Ev.key)
    /\ LET t == table[Ev.key]
       IN IF Ev.samefile
          THEN Ev.status = "fail" /\ Ev.after = Ev.before
          ELSE /\ \/ Ev.status = t.status
                  \/ (Ev.fe = "server" /\ t.status = "ok" /\ t.empty /\ Ev.status = "fail")   \* ServerRejectEmpty
               /\ (Ev.status = "ok" /\ Ev.fe \in PayloadFes) => Ev.hash = t.hash
               /\ Ev.status = "fail" => Ev.after = Ev.before
               /\ (Ev.status = "ok" /\ Ev.fe \in {"cli-file", "cli-stdin-file"}) => Ev.after = t.hash
               /\ (Ev.fe \in PayloadFes) => Ev.after = Ev.before
    /\ table' = table
    /\ l' = l + 1

\* table entries carry an `empty` flag; extend the record on entry
TTableE ==
    /\ Is("table")
    /\ IF Known(Ev.key)
       THEN table[Ev.key].status = Ev.status /\ table[Ev.key].hash = Ev.hash /\ table' = table
       ELSE table' = [k \in DOMAIN table \cup {Ev.key} |->
                         IF k = Ev.key THEN [status |-> Ev.status, hash |-> Ev.hash, empty |-> Ev.empty] ELSE table[k]]
    /\ l' = l + 1

TNext == TTableE \/ TOp
TInit == l = 1 /\ table = [k \in {} |-> 0]
TraceSpec == TInit /\ [][TNext]_tvars

Progress == TLCSet(1, l)
Accepted ==
    IF TLCGet("stats").diameter - 1 = Len(Rec) THEN TRUE
    ELSE /\ PrintT(<<"TRACE-REJECTED", "matched", TLCGet(1) - 1, "of", Len(Rec),
                     IF TLCGet(1) <= Len(Rec) THEN ToJson(Rec[TLCGet(1)]) ELSE "end">>)
         /\ FALSE
=============================================================================
