----------------------------- MODULE ScanProof -----------------------------
(***************************************************************************)
(* TLAPS proof, for token sequences of ANY length, of what TLC checks on   *)
(* Scan.tla for all sequences up to 4-5 tokens (property C01): the path    *)
(* scanner design never moves backwards, stays within its input, and a     *)
(* scan of k tokens takes at most k + 1 steps.                             *)
(***************************************************************************)
EXTENDS Scan, TLAPS

IndInv ==
    /\ idx \in Nat /\ steps \in Nat /\ toks \in Seq(Classes)
    /\ idx >= 1 /\ idx <= Len(toks) + 1
    /\ result = "running" => steps = idx - 1
    /\ result # "running" => steps <= idx

\* the design proper: no named deviation is switched on
ASSUME NoDeviation == Deviations = {}

\* one step either consumes a token or ends the scan; either way it is one step
LEMMA StepShape ==
    ASSUME IndInv, Step
    PROVE  /\ toks' = toks /\ steps' = steps + 1
           /\ \/ idx <= Len(toks) /\ idx' = idx + 1 /\ result' = result /\ result = "running"
              \/ idx' = idx /\ result' # "running" /\ result = "running"
<1> USE NoDeviation DEF IndInv
<1>0. result = "running" /\ steps' = steps + 1
  BY DEF Step
<1>1. CASE idx > Len(toks)
  BY <1>1, <1>0 DEF Step
<1>2. CASE idx <= Len(toks) /\ Tok = "s"
  <2>1. CASE idx = 1
    BY <1>2, <2>1, <1>0 DEF Step
  <2>2. CASE idx # 1
    BY <1>2, <2>2, <1>0 DEF Step
  <2> QED BY <2>1, <2>2
<1>3. CASE idx <= Len(toks) /\ Tok # "s" /\ need # <<>>
  <2>1. CASE Matches(Head(need), Tok)
    BY <1>3, <2>1, <1>0 DEF Step
  <2>2. CASE ~Matches(Head(need), Tok)
    BY <1>3, <2>2, <1>0 DEF Step
  <2> QED BY <2>1, <2>2
<1>4. CASE idx <= Len(toks) /\ Tok # "s" /\ need = <<>> /\ Tok \in Cmds
  <2>1. CASE cmd = "-" /\ Tok # "M"
    BY <1>4, <2>1, <1>0 DEF Step
  <2>2. CASE ~(cmd = "-" /\ Tok # "M")
    BY <1>4, <2>2, <1>0 DEF Step
  <2> QED BY <2>1, <2>2
<1>5. CASE idx <= Len(toks) /\ Tok # "s" /\ need = <<>> /\ Tok \notin Cmds
  <2>1. CASE Tok \in {"n", "f"} /\ cmd \notin {"-", "Z"}
    BY <1>5, <2>1, <1>0 DEF Step
  <2>2. CASE ~(Tok \in {"n", "f"} /\ cmd \notin {"-", "Z"})
    BY <1>5, <2>2, <1>0 DEF Step
  <2> QED BY <2>1, <2>2
<1> QED BY <1>1, <1>2, <1>3, <1>4, <1>5

THEOREM InvInit == Init => IndInv
  BY DEF Init, IndInv, Seqs, NoDoubleSep, Classes, Cmds

THEOREM InvStep == IndInv /\ [Next]_vars => IndInv'
<1> SUFFICES ASSUME IndInv, [Next]_vars PROVE IndInv'
  OBVIOUS
<1>1. CASE Step
  <2>1. /\ toks' = toks /\ steps' = steps + 1
        /\ \/ idx <= Len(toks) /\ idx' = idx + 1 /\ result' = result /\ result = "running"
           \/ idx' = idx /\ result' # "running" /\ result = "running"
    BY <1>1, StepShape
  <2> QED BY <2>1 DEF IndInv
<1>2. CASE UNCHANGED vars
  BY <1>2 DEF IndInv, vars
<1> QED BY <1>1, <1>2 DEF Next

THEOREM LinearAlways == IndInv => Linear /\ Bounded
  BY DEF IndInv, Linear, Bounded

\* every behaviour of the scanner design, on input of any length
THEOREM Safety == Spec => [](Linear /\ Bounded)
<1>1. Spec => []IndInv
  BY InvInit, InvStep, PTL DEF Spec
<1> QED BY <1>1, LinearAlways, PTL
=============================================================================
