------------------------------- MODULE VarRef -------------------------------
(***************************************************************************)
(* The lexical side of property C15: WHICH name a '$' reference denotes.   *)
(* docs/mdbook/src/reference/expressions.md: "Variable names are alpha-    *)
(* numeric plus underscore"; a reference is `$name` - the name runs as far  *)
(* as name characters go - or `${name}`; a reference to a name that is not *)
(* defined is left verbatim.  Substitution is a single pass over the text. *)
(*                                                                         *)
(* Strings over a small alphabet with one representative per class:        *)
(*   "a" "b"  ASCII letters       "e"  a non-ASCII letter                  *)
(*   "1"      a digit             "_"  underscore                          *)
(*   "-" " "  characters that end a name      "{" "}" braces    "$"        *)
(* TLC enumerates every string up to MaxLen with at least one '$' and      *)
(* computes its expansion in an environment that defines names which are   *)
(* prefixes of one another (a, ab, a1, a_, e, be): the expansion must use  *)
(* the LONGEST name the text spells, not a defined prefix of it.           *)
(***************************************************************************)
EXTENDS Integers, Sequences, FiniteSets, TLC

CONSTANTS MaxLen
VARIABLE c

Sigma == {"$", "a", "b", "e", "1", "_", "-", " ", "{", "}"}
NameChar(ch) == ch \in {"a", "b", "e", "1", "_"}

\* the environment: name |-> value (values are single tokens, never re-expanded)
Defined == {<<"a">>, <<"a", "b">>, <<"a", "1">>, <<"a", "_">>, <<"e">>, <<"b", "e">>, <<"a", "e">>}
Value(n) == CASE n = <<"a">> -> "A" [] n = <<"a", "b">> -> "AB" [] n = <<"a", "1">> -> "A1" [] n = <<"a", "_">> -> "AU"
              [] n = <<"e">> -> "E" [] n = <<"b", "e">> -> "BE" [] OTHER -> "AE"

\* length of the maximal run of name characters at the start of s
RECURSIVE Run(_)
Run(s) == IF s # <<>> /\ NameChar(Head(s)) THEN 1 + Run(Tail(s)) ELSE 0
\* position of the first "}" in s, 0 if none
RECURSIVE Close(_, _)
Close(s, i) == IF i > Len(s) THEN 0 ELSE IF s[i] = "}" THEN i ELSE Close(s, i + 1)

\* the expansion: a sequence of tokens (characters copied, or values)
RECURSIVE Expand(_)
Expand(s) ==
    IF s = <<>> THEN <<>>
    ELSE IF Head(s) # "$" THEN <<Head(s)>> \o Expand(Tail(s))
    ELSE LET r == Tail(s)
         IN IF r # <<>> /\ Head(r) = "{"
            THEN LET k == Close(r, 2)
                 IN IF k = 0 THEN s                                   \* no closing brace: verbatim to the end
                    ELSE LET n == SubSeq(r, 2, k - 1)
                         IN (IF n \in Defined THEN <<Value(n)>> ELSE SubSeq(s, 1, k + 1)) \o Expand(SubSeq(r, k + 1, Len(r)))
            ELSE LET m == Run(r)
                     n == SubSeq(r, 1, m)
                 IN (IF n \in Defined THEN <<Value(n)>> ELSE <<"$">> \o n) \o Expand(SubSeq(r, m + 1, Len(r)))

HasDollar(s) == \E i \in 1..Len(s) : s[i] = "$"
\* "{{" would open an expression: another layer (Expr.tla)
NoExprOpen(s) == \A i \in 1..(Len(s) - 1) : ~(s[i] = "{" /\ s[i + 1] = "{")
Strs == UNION {[1..k -> Sigma] : k \in 1..MaxLen}
\* where the reference is written and what defines the names
\* ("var+defaults": a <defaults> rule for any element carries attributes named like UNDEFINED
\* names - defaults are for elements that are drawn, they define no variables)
Carriers == {"var", "g-attrs", "reuse-attrs", "nested-shadow", "var+defaults"}
Cases == {[fam |-> "varref", s |-> s, out |-> Expand(s), carrier |-> car] : s \in {x \in Strs : HasDollar(x) /\ NoExprOpen(x)}, car \in Carriers}

Init == c \in Cases
Next == UNCHANGED c
Spec == Init /\ [][Next]_c

\* an undefined or empty name changes nothing; without a name character after it "$" is itself
Verbatim == (\A i \in 1..Len(c.s) : c.s[i] = "$" => (i = Len(c.s) \/ ~(NameChar(c.s[i + 1]) \/ c.s[i + 1] = "{"))) => c.out = c.s
\* the expansion never invents a "$" and keeps every character outside references
NoNewDollar == Cardinality({i \in 1..Len(c.out) : c.out[i] = "$"}) <= Cardinality({i \in 1..Len(c.s) : c.s[i] = "$"})
=============================================================================
