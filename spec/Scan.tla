-------------------------------- MODULE Scan --------------------------------
(***************************************************************************)
(* The hand-written scanners of svgdx as token-class machines: SVG path    *)
(* data (src/path.rs PathParser, also used through the bearing extension   *)
(* src/bearing.rs), plus the generative grammars of the other SVG 1.1      *)
(* micro-syntaxes (points, transform lists) used by property C04.          *)
(*                                                                         *)
(* Path data is a sequence over token CLASSES: a command letter, "n" a     *)
(* number (any SVG spelling: sign, leading dot, exponent), "f" a flag      *)
(* (0 / 1, which is also a number), "s" a separator (comma / white space), *)
(* "j" anything else.  The design machine follows the SVG 1.1 grammar:     *)
(* the first command is a moveto, every command takes its arguments        *)
(* (repeated implicitly), closepath takes none, separators are optional.   *)
(* DESIGN RULE (property C01): every step consumes at least one token or   *)
(* ends the scan.                                                          *)
(***************************************************************************)
EXTENDS Integers, Sequences, FiniteSets, TLC

CONSTANTS Family, MaxLen, Deviations

VARIABLES toks, idx, cmd, need, result, steps
vars == <<toks, idx, cmd, need, result, steps>>

Cmds == {"M", "L", "H", "V", "Z", "C", "S", "Q", "T", "A", "B"}
Classes == Cmds \cup {"n", "f", "s", "j"}
Args(k) == CASE k \in {"M", "L", "T"} -> <<"n", "n">>
             [] k \in {"H", "V", "B"} -> <<"n">>
             [] k = "C" -> <<"n", "n", "n", "n", "n", "n">>
             [] k \in {"S", "Q"} -> <<"n", "n", "n", "n">>
             [] k = "A" -> <<"n", "n", "n", "f", "f", "n", "n">>
             [] OTHER -> <<>>
Seqs(n) == UNION {[1..k -> Classes] : k \in 0..n}
\* sequences worth running: no two separators in a row (they lex as one)
NoDoubleSep(s) == \A i \in 1..(Len(s) - 1) : ~(s[i] = "s" /\ s[i + 1] = "s")

\* all short sequences, plus every sequence of up to MaxLen - 1 classes after a
\* complete moveto (most of the scanner is only reachable behind one)
Init ==
    /\ toks \in {s \in Seqs(MaxLen) : NoDoubleSep(s)}
                 \cup {<<"M", "n", "n">> \o s : s \in {u \in Seqs(MaxLen - 1) : NoDoubleSep(u)}}
    /\ idx = 1 /\ cmd = "-" /\ need = <<>> /\ result = "running" /\ steps = 0

Tok == toks[idx]
Matches(want, t) == (want = "n" /\ t \in {"n", "f"}) \/ (want = "f" /\ t = "f")

Step ==
    /\ result = "running"
    /\ steps' = steps + 1
    /\ IF idx > Len(toks)
       THEN \* end of data: fine unless a command is still waiting for arguments
            /\ result' = IF need = <<>> THEN "ok" ELSE "err"
            /\ UNCHANGED <<toks, idx, cmd, need>>
       ELSE IF Tok = "s"
       THEN \* separators may appear between any two tokens (not before the first)
            /\ IF idx = 1 THEN result' = "err" /\ idx' = idx ELSE result' = result /\ idx' = idx + 1
            /\ UNCHANGED <<toks, cmd, need>>
       ELSE IF need # <<>>
       THEN \* an argument of the current command
            IF Matches(Head(need), Tok)
            THEN /\ need' = Tail(need) /\ idx' = idx + 1 /\ UNCHANGED <<toks, cmd, result>>
            ELSE /\ result' = "err" /\ UNCHANGED <<toks, idx, cmd, need>>
       ELSE IF Tok \in Cmds
       THEN \* a new command; path data starts with a moveto
            IF cmd = "-" /\ Tok # "M"
            THEN /\ result' = "err" /\ UNCHANGED <<toks, idx, cmd, need>>
            ELSE /\ cmd' = Tok /\ need' = Args(Tok) /\ idx' = idx + 1 /\ UNCHANGED <<toks, result>>
       ELSE IF Tok \in {"n", "f"} /\ cmd \notin {"-", "Z"}
       THEN \* implicit repetition of the previous command
            /\ need' = Tail(Args(cmd)) /\ idx' = idx + 1 /\ UNCHANGED <<toks, cmd, result>>
       ELSE IF Tok \in {"n", "f"} /\ cmd = "Z" /\ "ZStutter" \in Deviations
       THEN \* pinned code: closepath consumes nothing and is re-dispatched for ever
            UNCHANGED <<toks, idx, cmd, need, result>>
       ELSE \* a number after closepath, junk, or data before any command
            /\ result' = "err" /\ UNCHANGED <<toks, idx, cmd, need>>

Next == Step
Spec == Init /\ [][Next]_vars /\ WF_vars(Step)

(***************************************************************************)
(* Generative use of the same grammar (property C04): build every token    *)
(* sequence the SVG 1.1 path grammar derives, up to MaxLen tokens.         *)
(***************************************************************************)
SvgCmds == Cmds \ {"B"}
LastIsSep == toks # <<>> /\ toks[Len(toks)] = "s"
GenInit ==
    /\ toks = <<>> /\ idx = 1 /\ cmd = "-" /\ need = <<>> /\ result = "building" /\ steps = 0
Emit ==
    /\ result = "building" /\ Len(toks) < MaxLen
    /\ \E t \in SvgCmds \cup {"n", "f", "s"} :
          /\ toks' = Append(toks, t)
          /\ \/ /\ t = "s" /\ toks # <<>> /\ ~LastIsSep /\ UNCHANGED <<cmd, need>>
             \/ /\ need # <<>> /\ t = Head(need) /\ need' = Tail(need) /\ UNCHANGED cmd
             \/ /\ need = <<>> /\ t \in SvgCmds /\ (cmd = "-" => t = "M")
                /\ cmd' = t /\ need' = Args(t)
             \/ /\ need = <<>> /\ t = "n" /\ cmd \notin {"-", "Z"} /\ need' = Tail(Args(cmd)) /\ UNCHANGED cmd
    /\ UNCHANGED <<idx, result, steps>>
GenDone ==
    /\ result = "building" /\ need = <<>> /\ Len(toks) >= 3 /\ ~LastIsSep
    /\ result' = "ok"
    /\ UNCHANGED <<toks, idx, cmd, need, steps>>
GenSpec == GenInit /\ [][Emit \/ GenDone]_vars

\* every derived sequence is accepted by the scanning machine (checked by
\* running the machine on the exported sequences in the SCAN configuration)

\* C01: every step consumes input or ends the scan
Progress == [][idx' > idx \/ result' # "running"]_vars
Terminates == <>(result # "running")
Bounded == idx <= Len(toks) + 1
\* a scan of k tokens takes at most k + 1 steps
Linear == steps <= Len(toks) + 1
StepLimit == steps <= 3 * MaxLen + 5      \* state constraint for the deviation runs only

=============================================================================
