#!/usr/bin/env python3
"""Beyond the listed properties: spec/Defaults.tla (the <defaults> element) bound to the code.
TLC checks the statements of the reference on every case and exports the cases; each is written
out as a document, run on the real code, and the element's attributes / classes / style compared
with the specification's result.  Differences are REPORTED (lines "DIFFERENCE ..."), grouped by
which part of the result differs and which features the case uses; this is not a property check:
exit status 0 unless the tooling fails (2)."""
import collections
import json
import os
import random
import sys

sys.path.insert(0, os.path.join(os.path.dirname(os.path.abspath(__file__)), "..", "lib"))
import geom     # noqa: E402
import vlib     # noqa: E402


def rule_xml(i, r):
    m = [] if r["sel"] == "none" else [r["sel"]]
    if r["init"]:
        m.append("init")
    if r["final"]:
        m.append("final")
    match = f' match="{", ".join(m)}"' if m else ""
    return f'<{r["name"]}{match} fill="f{i}" data-own{i}="1" class="c{i}" style="s{i}: 1"/>'


def el_xml(el):
    a = ['id="p"', 'wh="2"' if el["name"] == "rect" else 'r="1"']
    if el["k"]:
        a.append('class="k"')
    if el["fill"]:
        a.append('fill="own"')
    if el["style"]:
        a.append('style="mine: 1"')
    return f'<{el["name"]} {" ".join(a)}/>'


def document(c):
    e = el_xml(c["el"])
    inner = e if c["where"] == "inner" else '<rect wh="1"/>'
    after = e if c["where"] == "after-inner" else ""
    return (f'<svg><defaults>{rule_xml(1, c["r1"])}{rule_xml(2, c["r2"])}</defaults>'
            f'<g><defaults>{rule_xml(3, c["r3"])}</defaults>{inner}</g>{after}</svg>')


def main():
    tier = os.environ.get("VERIF_TIER", "quick")
    seed = int(os.environ.get("VERIF_SEED", "1"))
    rnd = random.Random(seed)
    cfg = vlib.cfg_text(constants={"Tier": tier}, invariants=["OwnWins", "FinalStops", "InitForgets", "Scoped", "Export"])
    r = vlib.run_tlc("MC_Defaults", cfg, "defaults", workers=8, timeout=1500)
    if not r.ok:
        print(f"Defaults.tla: TLC reports {r.violated}: specification error")
        return 2
    recs = r.replay
    limit = 40000 if tier == "thorough" else 6000
    if len(recs) > limit:
        recs = rnd.sample(recs, limit)
    cases = [{"k": f"d{j}", "xml": document(c), "cfg": {"add_auto_styles": False}, "trace": False} for j, c in enumerate(recs)]
    res = vlib.run_cases(cases)
    diffs = collections.Counter()
    examples = {}
    agree = 0
    for case, c in zip(cases, recs):
        rr = res[case["k"]]
        exp = c["exp"]
        sig = None
        if rr["status"] != "ok":
            sig = "not-ok"
            got = rr.get("err")
        else:
            el = geom.find_by_id(rr["out"], "p")
            a = el.attrs if el is not None else {}
            fill = a.get("fill")
            got_fill = "none" if fill is None else ("own" if fill == "own" else "rule" + fill[1:])
            got = {"fill": got_fill, "owns": sorted(int(k[8:]) for k in a if k.startswith("data-own")),
                   "classes": sorted(int(k[1:]) for k in (el.classes() if el is not None else []) if k[0] == "c" and k[1:].isdigit()),
                   "style": a.get("style", "")}
            want_style = "; ".join([f"s{i}: 1" for i in exp["styles"]] + (["mine: 1"] if exp["ownstyle"] else []))
            parts = []
            if got["fill"] != exp["fill"]:
                parts.append("fill")
            if got["owns"] != sorted(exp["owns"]):
                parts.append("attributes")
            if got["classes"] != sorted(exp["classes"]):
                parts.append("classes")
            if got["style"] != want_style:
                parts.append("style")
            if parts:
                feats = [f for f, on in (("init", any(c[x]["init"] for x in ("r1", "r2", "r3"))),
                                         ("final", any(c[x]["final"] for x in ("r1", "r2", "r3"))),
                                         ("after-inner", c["where"] == "after-inner")) if on]
                sig = "+".join(parts) + " [" + ",".join(feats) + "]"
                got = dict(got, expected=dict(exp, style=want_style))
        if sig:
            diffs[sig] += 1
            examples.setdefault(sig, {"xml": case["xml"], "got": got})
        else:
            agree += 1
    out = {"module": "Defaults.tla", "tier": tier, "seed": seed, "tlc": {"distinct": r.distinct, "exported": len(r.replay)},
           "replayed": len(cases), "agree": agree, "differences": dict(diffs), "examples": examples}
    os.makedirs(os.path.join(vlib.EVID, "extra"), exist_ok=True)
    with open(os.path.join(vlib.EVID, "extra", "defaults.json"), "w") as f:
        json.dump(out, f, indent=1)
    for sig, n in diffs.most_common():
        print(f"DIFFERENCE defaults {sig}: {n} cases, e.g. {examples[sig]['xml']}")
    print(f"extra defaults: {len(cases)} cases replayed, {agree} agree with Defaults.tla, {sum(diffs.values())} differ ({len(diffs)} kinds); "
          f"TLC {r.distinct} states")
    return 0


if __name__ == "__main__":
    try:
        sys.exit(main())
    except vlib.ToolError as e:
        print("tool error:", e)
        sys.exit(2)
