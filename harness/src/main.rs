//! svx-runner: batch executor binding the TLA+ specification to the real svgdx
//! library. Reads NDJSON requests on stdin, writes one NDJSON response per
//! request on stdout. All decisions (oracles, comparisons) are made by the
//! orchestrator; this program only runs the code under test and reports what
//! happened (result, panic, trace, probe).
//!
//! A panic is caught and reported as data. A stack overflow or abort kills
//! this process; the orchestrator notices the missing response. A hang is
//! detected by a watchdog thread which prints a `hang` response and exits 3.

use std::io::{BufRead, Write};
use std::sync::atomic::{AtomicU64, Ordering};
use std::sync::{Arc, Mutex};
use std::time::{Duration, Instant};

use serde_json::{json, Value};
use svgdx::TransformConfig;

fn cfg_from(v: Option<&Value>) -> Result<TransformConfig, String> {
    let mut c = TransformConfig::default();
    let Some(Value::Object(m)) = v else {
        return Ok(c);
    };
    for (k, v) in m {
        match k.as_str() {
            "debug" => c.debug = v.as_bool().ok_or("debug")?,
            "scale" => c.scale = v.as_f64().ok_or("scale")? as f32,
            "border" => c.border = v.as_u64().ok_or("border")? as u16,
            "add_auto_styles" => c.add_auto_styles = v.as_bool().ok_or("add_auto_styles")?,
            "background" => c.background = v.as_str().ok_or("background")?.to_owned(),
            "seed" => c.seed = v.as_u64().ok_or("seed")?,
            "loop_limit" => c.loop_limit = v.as_u64().ok_or("loop_limit")? as u32,
            "var_limit" => c.var_limit = v.as_u64().ok_or("var_limit")? as u32,
            "depth_limit" => c.depth_limit = v.as_u64().ok_or("depth_limit")? as u32,
            "add_metadata" => c.add_metadata = v.as_bool().ok_or("add_metadata")?,
            "font_size" => c.font_size = v.as_f64().ok_or("font_size")? as f32,
            "font_family" => c.font_family = v.as_str().ok_or("font_family")?.to_owned(),
            "theme" => {
                c.theme = v
                    .as_str()
                    .ok_or("theme")?
                    .parse()
                    .map_err(|_| "theme".to_string())?
            }
            "use_local_styles" => c.use_local_styles = v.as_bool().ok_or("use_local_styles")?,
            "svg_style" => c.svg_style = v.as_str().map(|s| s.to_owned()),
            other => return Err(format!("unknown cfg key {other}")),
        }
    }
    Ok(c)
}

fn b64decode(s: &str) -> Vec<u8> {
    fn val(c: u8) -> Option<u32> {
        match c {
            b'A'..=b'Z' => Some((c - b'A') as u32),
            b'a'..=b'z' => Some((c - b'a') as u32 + 26),
            b'0'..=b'9' => Some((c - b'0') as u32 + 52),
            b'+' => Some(62),
            b'/' => Some(63),
            _ => None,
        }
    }
    let mut out = Vec::new();
    let mut acc = 0u32;
    let mut bits = 0;
    for &c in s.as_bytes() {
        if let Some(v) = val(c) {
            acc = (acc << 6) | v;
            bits += 6;
            if bits >= 8 {
                bits -= 8;
                out.push((acc >> bits) as u8);
                acc &= (1 << bits) - 1;
            }
        }
    }
    out
}

fn input_bytes(req: &Value) -> Vec<u8> {
    if let Some(s) = req.get("xml").and_then(|x| x.as_str()) {
        s.as_bytes().to_vec()
    } else if let Some(s) = req.get("b64").and_then(|x| x.as_str()) {
        b64decode(s)
    } else {
        Vec::new()
    }
}

fn panic_message(e: Box<dyn std::any::Any + Send>) -> String {
    if let Some(s) = e.downcast_ref::<&str>() {
        s.to_string()
    } else if let Some(s) = e.downcast_ref::<String>() {
        s.clone()
    } else {
        "panic".to_string()
    }
}

/// Summary of a trace without the events themselves (kept small).
fn trace_summary(trace: &[String]) -> Value {
    let mut counts = std::collections::BTreeMap::<String, u64>::new();
    let mut probe = Value::Null;
    let mut end = Value::Null;
    for l in trace {
        if let Ok(v) = serde_json::from_str::<Value>(l) {
            if let Some(e) = v.get("e").and_then(|e| e.as_str()) {
                *counts.entry(e.to_string()).or_default() += 1;
                if e == "probe" {
                    probe = v.clone();
                }
                if e == "end" {
                    end = v.clone();
                }
            }
        }
    }
    json!({"counts": counts, "probe": probe, "end": end, "len": trace.len()})
}

fn run_transform(input: &[u8], cfg: &TransformConfig, want_trace: bool, trace_cap: usize) -> Value {
    let inp = input.to_vec();
    let cfg = cfg.clone();
    let res = std::panic::catch_unwind(std::panic::AssertUnwindSafe(move || {
        svgdx::verif::set_cap(trace_cap);
        svgdx::verif::transform_traced(&inp, &cfg)
    }));
    match res {
        Ok((r, trace)) => {
            let mut o = match r {
                Ok(s) => json!({"status": "ok", "out": s}),
                Err(e) => json!({"status": "err", "err": e.to_string()}),
            };
            o["ts"] = trace_summary(&trace);
            if want_trace && trace.len() >= trace_cap {
                // the sink stopped recording: the trace has no end, do not hand it out
                o["trace_truncated"] = Value::Bool(true);
            } else if want_trace {
                let evs: Vec<Value> = trace
                    .iter()
                    .filter_map(|l| serde_json::from_str::<Value>(l).ok())
                    .collect();
                o["trace"] = Value::Array(evs);
            }
            o
        }
        Err(e) => {
            // drop whatever a half-finished transform left in the sink
            let trace = svgdx::verif::take();
            let mut o = json!({"status": "panic", "err": panic_message(e)});
            o["ts"] = trace_summary(&trace);
            o
        }
    }
}

fn handle(req: &Value) -> Value {
    let k = req.get("k").cloned().unwrap_or(Value::Null);
    let op = req.get("op").and_then(|o| o.as_str()).unwrap_or("transform");
    let mut resp = match op {
        "transform" => {
            let cfg = match cfg_from(req.get("cfg")) {
                Ok(c) => c,
                Err(e) => return json!({"k": k, "status": "toolerr", "err": e}),
            };
            let want_trace = req.get("trace").and_then(|t| t.as_bool()).unwrap_or(false);
            let cap = req
                .get("trace_cap")
                .and_then(|t| t.as_u64())
                .unwrap_or(if want_trace { 200_000 } else { 50_000 }) as usize;
            let input = input_bytes(req);
            let mut o = run_transform(&input, &cfg, want_trace, cap);
            // optionally the same request through the string API (front-ends must agree)
            if req.get("str_api").and_then(|t| t.as_bool()).unwrap_or(false) {
                if let Ok(text) = String::from_utf8(input.clone()) {
                    let cfg2 = cfg.clone();
                    let r = std::panic::catch_unwind(std::panic::AssertUnwindSafe(move || svgdx::transform_str(text, &cfg2)));
                    o["str_api"] = match r {
                        Ok(Ok(s)) => json!({"status": "ok", "out": s}),
                        Ok(Err(e)) => json!({"status": "err", "err": e.to_string()}),
                        Err(e) => json!({"status": "panic", "err": panic_message(e)}),
                    };
                }
            }
            // optional feedback chain: re-transform the output under further configs
            if let (Some(Value::Array(again)), Some(out)) = (
                req.get("again"),
                o.get("out").and_then(|s| s.as_str()).map(|s| s.to_owned()),
            ) {
                let mut rs = Vec::new();
                for c2 in again {
                    match cfg_from(Some(c2)) {
                        Ok(c2) => {
                            let mut r = run_transform(out.as_bytes(), &c2, false, 1000);
                            if r.get("out").and_then(|s| s.as_str()) == Some(out.as_str()) {
                                r["same"] = Value::Bool(true);
                                r.as_object_mut().unwrap().remove("out");
                            } else {
                                r["same"] = Value::Bool(false);
                            }
                            r.as_object_mut().unwrap().remove("ts");
                            rs.push(r);
                        }
                        Err(e) => rs.push(json!({"status": "toolerr", "err": e})),
                    }
                }
                o["again"] = Value::Array(rs);
            }
            // optional repetition in this process / in threads (determinism, isolation)
            if let Some(n) = req.get("threads").and_then(|t| t.as_u64()) {
                let reps = req.get("reps").and_then(|t| t.as_u64()).unwrap_or(1);
                let first = json!({"status": o["status"], "out": o.get("out"), "err": o.get("err")});
                let mut handles = Vec::new();
                for _ in 0..n {
                    let input = input.clone();
                    let cfg = cfg.clone();
                    handles.push(
                        std::thread::Builder::new()
                            .stack_size(8 << 20)
                            .spawn(move || {
                                let mut v = Vec::new();
                                for _ in 0..reps {
                                    let r = run_transform(&input, &cfg, false, 1000);
                                    v.push(json!({"status": r["status"], "out": r.get("out"), "err": r.get("err")}));
                                }
                                v
                            })
                            .unwrap(),
                    );
                }
                let mut differing = Vec::new();
                let mut total = 0u64;
                for h in handles {
                    if let Ok(v) = h.join() {
                        for r in v {
                            total += 1;
                            if r != first {
                                differing.push(r);
                            }
                        }
                    }
                }
                o["rep_total"] = json!(total);
                differing.truncate(3);
                o["rep_differing"] = Value::Array(differing);
            }
            o
        }
        "evalattr" => {
            let vars: Vec<(String, String)> = req
                .get("vars")
                .and_then(|v| v.as_array())
                .map(|a| {
                    a.iter()
                        .filter_map(|p| {
                            Some((p.get(0)?.as_str()?.to_owned(), p.get(1)?.as_str()?.to_owned()))
                        })
                        .collect()
                })
                .unwrap_or_default();
            let expr = req.get("expr").and_then(|e| e.as_str()).unwrap_or("").to_owned();
            let seed = req.get("seed").and_then(|e| e.as_u64()).unwrap_or(0);
            let res = std::panic::catch_unwind(move || svgdx::verif::eval_attr_with(&vars, &expr, seed));
            match res {
                Ok(Ok(s)) => json!({"status": "ok", "out": s}),
                Ok(Err(e)) => json!({"status": "err", "err": e.to_string()}),
                Err(e) => json!({"status": "panic", "err": panic_message(e)}),
            }
        }
        "concurrent" => {
            // many different transforms at once in this one process: every case is
            // run `reps` times, cases spread over `threads` threads that start together
            let cases: Vec<Value> = req.get("cases").and_then(|c| c.as_array()).cloned().unwrap_or_default();
            let threads = req.get("threads").and_then(|t| t.as_u64()).unwrap_or(4).max(1) as usize;
            let reps = req.get("reps").and_then(|t| t.as_u64()).unwrap_or(1);
            let barrier = Arc::new(std::sync::Barrier::new(threads));
            let mut handles = Vec::new();
            for t in 0..threads {
                let mine: Vec<(usize, Vec<u8>, Result<TransformConfig, String>)> = cases
                    .iter()
                    .enumerate()
                    .filter(|(i, _)| i % threads == t)
                    .map(|(i, c)| (i, input_bytes(c), cfg_from(c.get("cfg"))))
                    .collect();
                let barrier = barrier.clone();
                handles.push(
                    std::thread::Builder::new()
                        .stack_size(8 << 20)
                        .spawn(move || {
                            barrier.wait();
                            let mut out = Vec::new();
                            for _ in 0..reps {
                                for (i, input, cfg) in &mine {
                                    if let Ok(cfg) = cfg {
                                        let r = run_transform(input, cfg, false, 1000);
                                        out.push((*i, json!({"status": r["status"], "out": r.get("out"), "err": r.get("err")})));
                                    }
                                }
                            }
                            out
                        })
                        .unwrap(),
                );
            }
            let mut per_case: Vec<Vec<Value>> = vec![Vec::new(); cases.len()];
            for h in handles {
                if let Ok(v) = h.join() {
                    for (i, r) in v {
                        if !per_case[i].contains(&r) {
                            per_case[i].push(r);
                        }
                    }
                }
            }
            json!({"status": "ok", "results": per_case})
        }
        "ping" => json!({"status": "ok"}),
        other => json!({"status": "toolerr", "err": format!("unknown op {other}")}),
    };
    resp["k"] = k;
    resp
}

fn main() {
    // silence the default panic message; panics are reported as data
    std::panic::set_hook(Box::new(|_| {}));
    let args: Vec<String> = std::env::args().collect();
    let per_case_ms: u64 = args
        .iter()
        .position(|a| a == "--timeout-ms")
        .and_then(|i| args.get(i + 1))
        .and_then(|s| s.parse().ok())
        .unwrap_or(20_000);

    // watchdog: (deadline as millis since start, current key)
    let start = Instant::now();
    let deadline = Arc::new(AtomicU64::new(u64::MAX));
    let current = Arc::new(Mutex::new(Value::Null));
    {
        let deadline = deadline.clone();
        let current = current.clone();
        std::thread::spawn(move || loop {
            std::thread::sleep(Duration::from_millis(50));
            let now = start.elapsed().as_millis() as u64;
            if now > deadline.load(Ordering::SeqCst) {
                let k = current.lock().map(|g| g.clone()).unwrap_or(Value::Null);
                let out = std::io::stdout();
                let mut lock = out.lock();
                let _ = writeln!(lock, "{}", json!({"k": k, "status": "hang", "ms": per_case_ms}));
                let _ = lock.flush();
                std::process::exit(3);
            }
        });
    }

    // worker thread with a main-thread-sized stack
    let worker = std::thread::Builder::new()
        .stack_size(8 << 20)
        .spawn(move || {
            let stdin = std::io::stdin();
            let stdout = std::io::stdout();
            for line in stdin.lock().lines() {
                let Ok(line) = line else { break };
                if line.trim().is_empty() {
                    continue;
                }
                let req: Value = match serde_json::from_str(&line) {
                    Ok(v) => v,
                    Err(e) => {
                        let mut lock = stdout.lock();
                        let _ = writeln!(lock, "{}", json!({"k": null, "status": "toolerr", "err": e.to_string()}));
                        continue;
                    }
                };
                if let Ok(mut g) = current.lock() {
                    *g = req.get("k").cloned().unwrap_or(Value::Null);
                }
                let t_ms = req.get("timeout_ms").and_then(|t| t.as_u64()).unwrap_or(per_case_ms);
                deadline.store(start.elapsed().as_millis() as u64 + t_ms, Ordering::SeqCst);
                let t0 = Instant::now();
                let mut resp = handle(&req);
                deadline.store(u64::MAX, Ordering::SeqCst);
                resp["us"] = json!(t0.elapsed().as_micros() as u64);
                let mut lock = stdout.lock();
                let _ = writeln!(lock, "{}", resp);
                let _ = lock.flush();
            }
        })
        .unwrap();
    let _ = worker.join();
}
